"""C14 - blocking requests are mutually exclusive and served first-come first-served.

Tie: as C11, with 2..4 mixed blocking / non-blocking requests.
Observation checker: from a blocking request's first write to its end no frame of another blocking
request is written; blocking requests start transmitting in issue order; a non-blocking request
issued while a blocking request only waits for its response is transmitted at once.
"""
import priv
import hostdrive
from props.c11 import run_generic, replay  # noqa: F401

ASSUMPTIONS = ["events arrive at quiescent points of the event loop; timer ties avoided by construction"]


def free_link_scenarios():
    out = []
    for blk in "WBG":                       # blocking requests (WriteNVRAM 3 / 4 fragments, GetShortAddr)
        for nb in "ZD":                     # non-blocking requests (GetZigbeeRole, DataReq 2 fragments)
            s = [("start", 0.0, blk, 5000)] + [("ack", 0.0, blk, 5000)] * 4 + [("start", 0.0, nb, 3000)]
            out.append((s, len(s) - 1))
    return out


def across_reset(ctx):
    """Blocking requests in flight / queued when the NCP is reset deliberately (`ZBOSS.reset()`, real `connect()` with the
    first 0..2 re-open attempts failing): they outlive the reset, so a blocking request issued after the reconnect must
    still wait for them.  Observed on the written frames, each tagged with the request it belongs to."""
    import hostworld
    import streams
    K = hostworld.kinds()
    for fails in (0, 1, 2):
        for queued in (0, 1):
            for acked in (False, True):
                w = hostworld.HostWorld()
                try:
                    order = []
                    mk, _, _ = K["G"]
                    w.start(1, mk(1), 12.0); order.append(1)
                    if acked:
                        w.rx(streams.ack(priv.pack_seq(w.p)))
                    if queued:
                        w.start(2, K["P"][0](2), 14.0); order.append(2)
                    w.start_reset(real_connect=True, fail_first=fails)
                    w.rx(streams.ack(priv.pack_seq(w.p)))
                    w.lost()
                    for _ in range(40):
                        if "RECONNECTED" in w.log or not w.tick():
                            break
                    reconnected = "RECONNECTED" in w.log
                    late = K["W"][0](3)                                   # another blocking request, issued after the reconnect
                    assert late.blocking and mk(1).blocking and K["P"][0](2).blocking
                    w.start(3, late, 16.0); order.append(3)
                    steps = [list(w.log)]
                    for _ in range(80):
                        m = w.mark()
                        if all(tk.done() for tk in w.tasks.values()) or not w.tick():
                            break
                        steps.append(w.log[m:])
                    # per step (one timer expiry): completions first - the done-callback that logs them runs after the
                    # wake-up of the next lock holder although the lock was released before that holder could write
                    active, firsts, bad = None, [], None
                    for st in steps:
                        for e in st:
                            if e.startswith("D") and "=" in e and int(e[1:].split("=")[0]) == active:
                                active = None
                        for e in st:
                            if e.startswith("W") and "#" in e:
                                rid = int(e.rsplit("#", 1)[1])
                                raw = bytes.fromhex(e[1:].split("#")[0])
                                if rid not in (1, 2, 3) or (raw[5] & 1):
                                    continue
                                if active is not None and active != rid and bad is None:
                                    bad = "request %d writes while request %d is in progress" % (rid, active)
                                if active is None:
                                    active = rid
                                if rid not in firsts:
                                    firsts.append(rid)
                            elif e.startswith("D") and "=" in e:
                                if int(e[1:].split("=")[0]) == active:
                                    active = None
                    inp = dict(failed_reopen_attempts=fails, queued_blocking_requests=queued, first_acknowledged=acked)
                    ctx.case(("across-reset", fails, queued, acked), nontrivial=True,
                             sample=dict(inp, reconnected=reconnected, first_writes=firsts,
                                         log=[x[:1] + x[-3:] if x.startswith("W") else x for x in w.log][-16:]))
                    ctx.count("across-reset")
                    if not reconnected:
                        ctx.count("across-reset:not-reconnected")
                        continue
                    if bad:
                        ctx.counterexample("blocking-overlap-across-reset", inp, "one blocking request at a time", bad,
                                           "a blocking request issued after a reset's reconnect is written while an earlier one is still in progress")
                    elif firsts != sorted(firsts):
                        ctx.counterexample("blocking-not-fifo-across-reset", inp, sorted(firsts), firsts,
                                           "blocking requests are not served in issue order across a reset")
                finally:
                    w.shutdown()


def coincidence_and_scale(ctx):
    """(a) a blocking request issued in the very loop iteration in which the one in flight ends (its response has been
    read, its task not yet resumed), with another blocking request already queued: the queued one goes first, and only
    one is past the lock at a time; (b) many blocking requests outstanding (one in flight, the others queued, nothing of
    theirs on the wire): a request that is not blocking is still written at once."""
    import hostworld
    import streams
    K = hostworld.kinds()
    # (a)
    for how in ("response", "cancel"):
        for kinds in (("G", "P", "W"), ("G", "G", "P"), ("W", "P", "G")):
            w = hostworld.HostWorld()
            try:
                ka, kb, kd = kinds
                w.start(1, K[ka][0](1), 9.0)
                for _ in range(4):
                    w.rx(streams.ack(priv.pack_seq(w.p)))
                w.start(2, K[kb][0](2), 9.5)
                # same iteration: A's end is caused, D is issued, only then the loop runs
                if how == "response":
                    w.p.data_received(bytes(hostworld.rsp_bytes(K[ka][1], 1, 1, **K[ka][2])))
                else:
                    w.tasks[1].cancel()
                w.start(3, K[kd][0](3), 9.9)
                for _ in range(30):
                    if all(tk.done() for tk in w.tasks.values()):
                        break
                    w.rx(streams.ack(priv.pack_seq(w.p)))
                    if not any(not tk.done() for tk in w.tasks.values()):
                        break
                    if _ % 3 == 2:
                        w.tick()
                firsts, active, bad = [], None, None
                for e in w.log:
                    if e.startswith("W") and "#" in e:
                        rid = int(e.rsplit("#", 1)[1])
                        raw = bytes.fromhex(e[1:].split("#")[0])
                        if raw[5] & 1 or rid not in (1, 2, 3):
                            continue
                        if rid not in firsts:
                            firsts.append(rid)
                inp = dict(ends_by=how, kinds="".join(kinds))
                ctx.case(("same-iteration-start", how, kinds), nontrivial=True, sample=dict(inp, first_writes=firsts, ends=[e for e in w.log if e.startswith("D")]))
                ctx.count("same-iteration-start")
                odd = [e for e in w.log if e.startswith("D") and e.split("=")[1] not in ("RET", "CANCELLED", "TimeoutError")]
                if firsts != sorted(firsts):
                    ctx.counterexample("blocking-not-fifo", inp, sorted(firsts), firsts,
                                       "a blocking request issued in the iteration in which another one ends overtakes the one already queued")
                elif odd:
                    ctx.counterexample("blocking-request-failed", inp, "requests end by response / timeout / cancellation", odd,
                                       "a blocking request ends with an internal error")
            finally:
                w.shutdown()
    # (b)
    for n in (8, 17, 24):
        w = hostworld.HostWorld()
        try:
            for i in range(1, n + 1):
                w.start(i, K["G" if i % 2 else "P"][0](i), 20.0 + i)
            w.rx(streams.ack(priv.pack_seq(w.p)))
            m = w.mark()
            w.start(n + 1, K["Z"][0](n + 1), 5.0)          # not blocking
            wrote = [e for e in w.log[m:] if e.startswith("W") and e.endswith("#%d" % (n + 1))]
            inp = dict(blocking_requests_outstanding=n)
            ctx.case(("many-blocking", n), nontrivial=True, sample=dict(inp, written_at_once=bool(wrote)))
            ctx.count("many-blocking-outstanding")
            if not wrote:
                ctx.counterexample("nonblocking-waits", inp, "written at once", [e[:12] for e in w.log[m:]][:4],
                                   "a request that is not blocking waits although only blocking requests are outstanding and the link is free")
        finally:
            w.shutdown()


def run(ctx):
    across_reset(ctx)
    coincidence_and_scale(ctx)
    ctx.rule = ("(a) scenarios: a multi-fragment request fully acknowledged and waiting for its response, then a request of "
                "another command: it must be written in the same step; (b) random schedules of 2..4 mixed requests with "
                "ACK / response timing, timeouts, cancellations; non-trivial = >= 2 requests and >= 4 event kinds")
    r = ctx.rng
    traces = []
    for s, at in free_link_scenarios():
        tr = hostdrive.run_schedule(r, s, drain=False)
        ctx.case(tuple(tr.tokens), sample=dict(events=tr.tokens, steps=tr.steps))
        ctx.count("free-link-scenario")
        last = tr.steps[-1]
        if not any(e.startswith("W") and e != "WACK" for e in last):
            ctx.counterexample("nonblocking-waits", dict(events=tr.tokens), "written at once", last,
                               "a request waits for another request's response although the link is free")
        traces.append(tr)
    hostdrive.compare(ctx, traces)
    run_generic(ctx, hostdrive.monitor_c14, ctx.scale(250, 2500), max_live=4 if False else None or 3,
                weights=dict(start=6, ack=6, rsp=3, tick=2, cancel=1.5, badack=0.5, close=0.05, lost=0.05), kinds="GWBDWBZ")


def search(ctx):
    return None
