"""C14 - blocking requests are mutually exclusive and served first-come first-served.

Tie: as C11, with 2..4 mixed blocking / non-blocking requests.
Observation checker: from a blocking request's first write to its end no frame of another blocking
request is written; blocking requests start transmitting in issue order; a non-blocking request
issued while a blocking request only waits for its response is transmitted at once.
"""
import priv
import hostdrive
from props.c11 import run_generic, replay  # noqa: F401

ASSUMPTIONS = ["events arrive at quiescent points of the event loop; timer ties avoided by construction"]


def free_link_scenarios():
    out = []
    for blk in "WBG":                       # blocking requests (WriteNVRAM 3 / 4 fragments, GetShortAddr)
        for nb in "ZD":                     # non-blocking requests (GetZigbeeRole, DataReq 2 fragments)
            s = [("start", 0.0, blk, 5000)] + [("ack", 0.0, blk, 5000)] * 4 + [("start", 0.0, nb, 3000)]
            out.append((s, len(s) - 1))
    return out


def across_reset(ctx):
    """Blocking requests in flight / queued when the NCP is reset deliberately (`ZBOSS.reset()`, real `connect()` with the
    first 0..2 re-open attempts failing): they outlive the reset, so a blocking request issued after the reconnect must
    still wait for them.  Observed on the written frames, each tagged with the request it belongs to."""
    import hostworld
    import streams
    K = hostworld.kinds()
    for fails in (0, 1, 2):
        for queued in (0, 1):
            for acked in (False, True):
                w = hostworld.HostWorld()
                try:
                    order = []
                    mk, _, _ = K["G"]
                    w.start(1, mk(1), 12.0); order.append(1)
                    if acked:
                        w.rx(streams.ack(priv.pack_seq(w.p)))
                    if queued:
                        w.start(2, K["P"][0](2), 14.0); order.append(2)
                    w.start_reset(real_connect=True, fail_first=fails)
                    w.rx(streams.ack(priv.pack_seq(w.p)))
                    w.lost()
                    for _ in range(40):
                        if "RECONNECTED" in w.log or not w.tick():
                            break
                    reconnected = "RECONNECTED" in w.log
                    late = K["W"][0](3)                                   # another blocking request, issued after the reconnect
                    assert late.blocking and mk(1).blocking and K["P"][0](2).blocking
                    w.start(3, late, 16.0); order.append(3)
                    steps = [list(w.log)]
                    for _ in range(80):
                        m = w.mark()
                        if all(tk.done() for tk in w.tasks.values()) or not w.tick():
                            break
                        steps.append(w.log[m:])
                    # per step (one timer expiry): completions first - the done-callback that logs them runs after the
                    # wake-up of the next lock holder although the lock was released before that holder could write
                    active, firsts, bad = None, [], None
                    for st in steps:
                        for e in st:
                            if e.startswith("D") and "=" in e and int(e[1:].split("=")[0]) == active:
                                active = None
                        for e in st:
                            if e.startswith("W") and "#" in e:
                                rid = int(e.rsplit("#", 1)[1])
                                raw = bytes.fromhex(e[1:].split("#")[0])
                                if rid not in (1, 2, 3) or (raw[5] & 1):
                                    continue
                                if active is not None and active != rid and bad is None:
                                    bad = "request %d writes while request %d is in progress" % (rid, active)
                                if active is None:
                                    active = rid
                                if rid not in firsts:
                                    firsts.append(rid)
                            elif e.startswith("D") and "=" in e:
                                if int(e[1:].split("=")[0]) == active:
                                    active = None
                    inp = dict(failed_reopen_attempts=fails, queued_blocking_requests=queued, first_acknowledged=acked)
                    ctx.case(("across-reset", fails, queued, acked), nontrivial=True,
                             sample=dict(inp, reconnected=reconnected, first_writes=firsts,
                                         log=[x[:1] + x[-3:] if x.startswith("W") else x for x in w.log][-16:]))
                    ctx.count("across-reset")
                    if not reconnected:
                        ctx.count("across-reset:not-reconnected")
                        continue
                    if bad:
                        ctx.counterexample("blocking-overlap-across-reset", inp, "one blocking request at a time", bad,
                                           "a blocking request issued after a reset's reconnect is written while an earlier one is still in progress")
                    elif firsts != sorted(firsts):
                        ctx.counterexample("blocking-not-fifo-across-reset", inp, sorted(firsts), firsts,
                                           "blocking requests are not served in issue order across a reset")
                finally:
                    w.shutdown()


def run(ctx):
    across_reset(ctx)
    ctx.rule = ("(a) scenarios: a multi-fragment request fully acknowledged and waiting for its response, then a request of "
                "another command: it must be written in the same step; (b) random schedules of 2..4 mixed requests with "
                "ACK / response timing, timeouts, cancellations; non-trivial = >= 2 requests and >= 4 event kinds")
    r = ctx.rng
    traces = []
    for s, at in free_link_scenarios():
        tr = hostdrive.run_schedule(r, s, drain=False)
        ctx.case(tuple(tr.tokens), sample=dict(events=tr.tokens, steps=tr.steps))
        ctx.count("free-link-scenario")
        last = tr.steps[-1]
        if not any(e.startswith("W") and e != "WACK" for e in last):
            ctx.counterexample("nonblocking-waits", dict(events=tr.tokens), "written at once", last,
                               "a request waits for another request's response although the link is free")
        traces.append(tr)
    hostdrive.compare(ctx, traces)
    run_generic(ctx, hostdrive.monitor_c14, ctx.scale(250, 2500), max_live=4 if False else None or 3,
                weights=dict(start=6, ack=6, rsp=3, tick=2, cancel=1.5, badack=0.5, close=0.05, lost=0.05), kinds="GWBDWBZ")


def search(ctx):
    return None
