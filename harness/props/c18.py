"""C18 - packets and bind requests cross the radio boundary faithfully, both ways.

Tie: a real `ControllerApplication` (zigpy 2.x, raw config) with a stub API object that records the
request handed to `ZBOSS.request`: `send_packet`, `on_apsde_indication`, `get_sequence`,
`ZbossZDO.Bind_req` / `Unbind_req` vs the Lean record maps (`appsend`, `appind`, `appseq`, `appbind`).
Observation checker (implementation only): field-by-field reading of the property on the recorded
request / delivered packet (payload unchanged, DataLength, ParamLength 21, endpoints, cluster,
profile, TSN, little-endian 16-bit address, IEEE unchanged, options, indication slicing and
addressing, sequence never 255, bind == unbind apart from the command).
"""
import priv
import asyncio
import logging

from common import hx

logging.getLogger().addHandler(logging.NullHandler()); logging.getLogger().setLevel(logging.DEBUG); logging.getLogger("asyncio").setLevel(logging.WARNING)
ASSUMPTIONS = ["zigpy ControllerApplication / ZigbeePacket / AddrModeAddress by the fields read",
               "ZDO-endpoint packets (endpoint 0) are routed to the ZDO helper and are outside the property"]


class Api:
    def __init__(self):
        self.sent = []
        self.status = 0
        self.lose_responses = 0      # the next n requests get no response: the API's response wait times out

    async def request(self, req, timeout=None, **kw):
        import zigpy_zboss.types as zt
        self.sent.append(req)
        if self.lose_responses > 0:
            self.lose_responses -= 1
            raise asyncio.TimeoutError()
        return req.Rsp(TSN=req.TSN, StatusCat=zt.StatusCategory(0), StatusCode=zt.StatusCodeGeneric(self.status), partial=True)


def opt(v):
    return "_" if v is None else str(int(v))


nreq = {}


def run(ctx):
    import zigpy.types as t
    import zigpy.zdo.types as zdo_t
    import zigpy.device
    from zigpy_zboss.zigbee.application import ControllerApplication
    from zigpy_zboss.zigbee.device import ZbossZDO, ZbossDevice
    from zigpy_zboss import commands as c
    import zigpy_zboss.types as zt
    r = ctx.rng
    ctx.rule = ("packets: addressing modes NWK/Group/Broadcast/IEEE x endpoints (None, 1, 255) x cluster/profile/TSN "
                "boundaries x payload 2..200 bytes x option combinations; indications: frame-control bit combinations x "
                "payload-length vs payload size; sequences from every start value; bind/unbind: IEEE and group "
                "destinations, endpoint None/value, success and failure status; non-trivial = non-default addressing or "
                "options; distinct by full input")
    lines, metas = [], []

    async def main():
        app = ControllerApplication({"device": {"path": "/dev/null"}, "database_path": None})
        api = Api()
        app._api = api
        app.state.node_info.nwk = t.NWK(0x0000)
        got = []
        app.packet_received = lambda p: got.append(p)
        nreq.clear()
        # ---- send_packet
        for _ in range(ctx.scale(300, 6000)):
            mode = r.choice([t.AddrMode.NWK, t.AddrMode.Group, t.AddrMode.Broadcast, t.AddrMode.IEEE])
            if mode == t.AddrMode.IEEE:
                addr = t.EUI64([r.getrandbits(8) for _ in range(8)])
            elif mode == t.AddrMode.Broadcast:
                addr = r.choice(list(t.BroadcastAddress))
            elif mode == t.AddrMode.Group:
                addr = t.Group(r.choice([0, 1, 0x1234, 0xFFFF, r.getrandbits(16)]))
            else:
                addr = t.NWK(r.choice([0, 1, 0x1234, 0xFFFE, r.getrandbits(16)]))
            src_ep = r.choice([1, 1, 2, 255, r.randrange(1, 256)])
            dst_ep = r.choice([1, 1, 242, 255, None, r.randrange(1, 256)])
            data = bytes(r.getrandbits(8) for _ in range(r.choice([2, 3, 10, 80, 200, r.randrange(2, 201)])))
            txo = t.TransmitOptions(r.choice([0, 1, 2, 3, 4, 7]))
            radius = r.choice([None, 0, 30, 255])
            pkt = t.ZigbeePacket(src=t.AddrModeAddress(addr_mode=t.AddrMode.NWK, address=t.NWK(0)), src_ep=src_ep,
                                 dst=t.AddrModeAddress(addr_mode=mode, address=addr), dst_ep=dst_ep,
                                 tsn=r.choice([0, 1, 254, 255, r.getrandbits(8)]), profile_id=r.choice([0, 260, 0xFFFF, r.getrandbits(16)]),
                                 cluster_id=r.choice([0, 6, 0xFFFF, r.getrandbits(16)]), data=t.SerializableBytes(data),
                                 tx_options=txo, radius=radius)
            api.sent.clear()
            lost = r.choice([0, 0, 0, 0, 1, 2])
            api.lose_responses = lost
            try:
                await app.send_packet(pkt)
                q = api.sent[0] if api.sent else None
                err = None
            except Exception as ex:   # noqa
                q, err = (api.sent[0] if (api.sent and lost) else None), (None if (api.sent and lost) else type(ex).__name__)
            api.lose_responses = 0
            nreq[id(pkt)] = (len(api.sent), lost)
            ieee_hex = hx(addr.serialize()) if mode == t.AddrMode.IEEE else "-"
            a16 = 0 if mode == t.AddrMode.IEEE else int(addr)
            lines.append("appsend %d %d %s %s %s %d %d %d %s %d %s" % (int(mode), a16, ieee_hex, opt(src_ep), opt(dst_ep), pkt.tsn,
                                                                 pkt.profile_id, pkt.cluster_id, opt(radius), txo.value, hx(data)))
            metas.append(("send", pkt, q, err))
        # ---- indications
        for _ in range(ctx.scale(200, 4000)):
            n = r.choice([0, 1, 2, 3, 10, 60])
            payload = bytes(r.getrandbits(8) for _ in range(n))
            plen = r.choice([n, n, max(n - 1, 0), 2, n + 3])
            fc = r.choice([0, 4, 8, 12, 32, 36, 40, 44, r.getrandbits(8)])
            ind = c.APS.DataIndication.Ind(ParamLength=21, PayloadLength=plen, FrameFC=zt.APSFrameFC(fc), SrcAddr=t.NWK(r.getrandbits(16)),
                                           DstAddr=t.NWK(r.choice([0, 0, 0x1234, 0xFFF7, 0xFFF8, 0xFFFB, 0xFFFC, 0xFFFD, 0xFFFF, r.getrandbits(16)])), GrpAddr=t.NWK(r.getrandbits(16)), DstEndpoint=r.getrandbits(8), SrcEndpoint=r.getrandbits(8),
                                           ClusterId=r.getrandbits(16), ProfileId=r.getrandbits(16), PacketCounter=1, SrcMACAddr=t.NWK(1),
                                           DstMACAddr=t.NWK(2), LQI=r.getrandbits(8), RSSI=r.randrange(-128, 128), KeySrcAndAttr=zt.ApsAttributes(0),
                                           Payload=zt.Payload(payload))
            got.clear()
            try:
                # as it arrives from the NCP: through its wire bytes (what the typed fields do while parsing is part of
                # the path from the radio to the stack)
                arrived = ind
                if r.random() < 0.8:
                    try:
                        arrived = c.APS.DataIndication.Ind.from_frame(ind.to_frame())
                    except Exception:
                        arrived = ind
                app.on_apsde_indication(arrived)
                pk, err = (got[0] if got else None), None
            except Exception as ex:  # noqa
                pk, err = None, type(ex).__name__
            lines.append("appind 0 %d %d %d %d %d %d %d %d %d %d %s" % (plen, fc, ind.SrcAddr, ind.GrpAddr, ind.DstEndpoint, ind.SrcEndpoint,
                                                                    ind.ClusterId, ind.ProfileId, ind.LQI, ind.RSSI, hx(payload)))
            metas.append(("ind", ind, pk, err))
        # ---- sequence numbers
        for s0 in ([0, 1, 100, 252, 253, 254] if not ctx.thorough() else range(255)):
            setattr(app, priv.app_seq_name(app) or "_send_sequence", s0)
            seqs = [app.get_sequence() for _ in range(600)]
            lines.append("appseq %d 600" % s0)
            metas.append(("seq", s0, seqs, None))
        # ---- bind / unbind
        dev = zigpy.device.Device(app, t.EUI64([1] * 8), 0x1234)
        zdo = ZbossZDO(dev)
        for _ in range(ctx.scale(150, 3000)):
            is_ieee = r.random() < 0.5
            ep = r.choice([None, 1, 255, r.randrange(1, 256)]) if not is_ieee else r.randrange(1, 256)
            if is_ieee:
                dst = zdo_t.MultiAddress()
                dst.addrmode = 3
                dst.ieee = t.EUI64([r.getrandbits(8) for _ in range(8)])
                dst.endpoint = ep
            else:
                dst = zdo_t.MultiAddress()
                dst.addrmode = 1
                dst.nwk = r.choice([0, 1, 0xFFFF, r.getrandbits(16)])
            src = t.EUI64([r.getrandbits(8) for _ in range(8)])
            sep, cl = r.randrange(1, 256), r.getrandbits(16)
            if r.random() < 0.1:
                # the application reconnects: a new API object; requests must go to the current one
                api = Api()
                app._api = api
                ctx.count("bind:api-replaced")
            api.status = r.choice([0, 0, 1, 24])
            res = {}
            for name in ("Bind_req", "Unbind_req"):
                setattr(app, priv.app_seq_name(app) or "_send_sequence", 41)
                api.sent.clear()
                try:
                    out = await getattr(zdo, name)(src, sep, cl, dst)
                    res[name] = (api.sent[0] if api.sent else None, out, None)
                except Exception as ex:  # noqa
                    res[name] = (None, None, type(ex).__name__)
            lines.append("appbind 42 %d %s %d %d %d %s %d %s" % (dev.nwk, hx(src.serialize()), sep, cl, dst.addrmode,
                                                            hx(dst.ieee.serialize()) if is_ieee else "-", 0 if is_ieee else dst.nwk,
                                                            opt(getattr(dst, "endpoint", None) if is_ieee else None)))
            metas.append(("bind", (src, sep, cl, dst, is_ieee, api.status), res, None))
    asyncio.run(main())
    ans = ctx.driver.ask(lines) if ctx.driver else [None] * len(lines)
    import zigpy.types as t
    for (kind, a, b, err), m in zip(metas, ans):
        if kind == "send":
            pkt, q = a, b
            inp = dict(packet=repr(pkt)[:300])
            zdo_path = 0 in (pkt.src_ep, pkt.dst_ep)
            nontriv = pkt.dst.addr_mode != t.AddrMode.NWK or pkt.tx_options.value != 0
            ctx.case(("send", repr(pkt)), nontrivial=nontriv, sample=dict(kind="send_packet", mode=int(pkt.dst.addr_mode), data_len=len(pkt.data.serialize())))
            ctx.count("send:mode=%d" % int(pkt.dst.addr_mode))
            cnt, lost = nreq.get(id(pkt), (None, 0))
            if cnt is not None and cnt > 1:
                ctx.counterexample("packet-duplicated", dict(inp, responses_lost=lost), "one data request", cnt,
                                   "one application packet was turned into %d data requests (a late or lost response "
                                   "does not mean the NCP did not transmit the frame)" % cnt)
            if err or q is None:
                impl = "zdo" if (q is None and not err) else "refused"
                if not zdo_path:
                    ctx.counterexample("packet-not-sent", inp, "one data request", err, "an application packet is not turned into a data request")
            else:
                data = pkt.data.serialize()
                checks = [
                    ("payload", bytes(q.Payload.serialize()), data), ("DataLength", int(q.DataLength), len(data)),
                    ("ParamLength", int(q.ParamLength), 21), ("DstEndpoint", int(q.DstEndpoint), pkt.dst_ep or 0),
                    ("SrcEndpoint", int(q.SrcEndpoint), pkt.src_ep or 0), ("ClusterId", int(q.ClusterId), pkt.cluster_id),
                    ("ProfileID", int(q.ProfileID), pkt.profile_id), ("TSN", int(q.TSN), pkt.tsn),
                    ("ack-option", bool(q.TxOptions & c.aps.TransmitOptions.ACK_ENABLED), bool(pkt.tx_options & t.TransmitOptions.ACK)),
                    ("encrypt-option", bool(q.TxOptions & c.aps.TransmitOptions.SECURITY_ENABLED), bool(pkt.tx_options & t.TransmitOptions.APS_Encryption)),
                ]
                raw = q.DstAddr.serialize()
                if pkt.dst.addr_mode == t.AddrMode.IEEE:
                    checks.append(("DstAddr", raw, pkt.dst.address.serialize()))
                    checks.append(("DstAddrMode", int(q.DstAddrMode), int(t.AddrMode.IEEE)))
                else:
                    checks.append(("DstAddr-le16", int.from_bytes(raw[:2], "little"), int(pkt.dst.address)))
                    checks.append(("DstAddr-rest", raw[2:], bytes(6)))
                # the 21-byte parameter section: serialized size of the parameters between DataLength and Payload
                names = [p.name for p in type(q).schema]
                sect = b"".join(getattr(q, n).serialize() for n in names[names.index("DataLength") + 1:names.index("Payload")])
                checks.append(("parameter-section-size", len(sect), 21))
                for nm, gotv, want in checks:
                    if gotv != want:
                        ctx.counterexample("packet-field:" + nm, inp, want, gotv, "data request field %s does not carry the packet's value" % nm)
                        break
                impl = "req %d %d %d %s %d %d %d %d %d %d %d %d %d %d %s" % (
                    q.TSN, q.ParamLength, q.DataLength, hx(raw), q.ProfileID, q.ClusterId, q.DstEndpoint, q.SrcEndpoint, q.Radius,
                    int(q.DstAddrMode), int(q.TxOptions), int(q.UseAlias), q.AliasSrcAddr, q.AliasSeqNbr, hx(q.Payload.serialize()))
            if m is not None and m != impl:
                ctx.mismatch("appsend", inp, m, impl)
        elif kind == "ind":
            ind, pk = a, b
            payload = bytes(ind.Payload.serialize())
            inp = dict(indication=repr(ind)[:300])
            ctx.case(("ind", repr(ind)), nontrivial=int(ind.FrameFC) != 0 or ind.PayloadLength != len(payload),
                     sample=dict(kind="indication", fc=int(ind.FrameFC), payload_len=len(payload), payload_length_field=int(ind.PayloadLength)))
            ctx.count("ind:fc&12=%d" % (int(ind.FrameFC) & 12))
            if pk is None:
                impl = "none"
                if len(payload) >= 2:
                    ctx.counterexample("indication-dropped", inp, "delivered", err, "an incoming data indication is not delivered upward")
            else:
                fc = int(ind.FrameFC)
                want_mode = t.AddrMode.Broadcast if fc & 4 else t.AddrMode.Group if fc & 8 else t.AddrMode.NWK
                checks = [("src", int(pk.src.address), int(ind.SrcAddr)), ("src_ep", pk.src_ep, ind.SrcEndpoint), ("dst_ep", pk.dst_ep, ind.DstEndpoint),
                          ("cluster", pk.cluster_id, ind.ClusterId), ("profile", pk.profile_id, ind.ProfileId), ("lqi", pk.lqi, ind.LQI),
                          ("data", pk.data.serialize(), payload[:ind.PayloadLength]), ("addressing", pk.dst.addr_mode, want_mode)]
                if want_mode == t.AddrMode.Group:
                    checks.append(("group", int(pk.dst.address), int(ind.GrpAddr)))
                for nm, gotv, want in checks:
                    if gotv != want:
                        ctx.counterexample("indication-field:" + nm, inp, want, gotv, "delivered packet field %s differs from the indication" % nm)
                        break
                impl = "pkt %d %d %d %d %d %d %d %d %s %d %d %d" % (pk.src.address, pk.src_ep, int(pk.dst.addr_mode), int(pk.dst.address), pk.dst_ep,
                                                                  pk.tsn, pk.profile_id, pk.cluster_id, hx(pk.data.serialize()),
                                                                  int(bool(pk.tx_options & t.TransmitOptions.APS_Encryption)), pk.lqi, pk.rssi)
            if m is not None and m != impl:
                ctx.mismatch("appind", inp, m, impl)
        elif kind == "seq":
            s0, seqs = a, b
            ctx.case(("seq", s0), sample=dict(kind="get_sequence", start=s0, first=seqs[:4]))
            ctx.count("seq")
            if 255 in seqs or any(x < 0 or x > 254 for x in seqs):
                ctx.counterexample("sequence-255", dict(start=s0), "never 255", seqs.index(255) if 255 in seqs else seqs[:5], "a request sequence number 255 was issued")
            if m is not None and m != ",".join(str(x) for x in seqs):
                ctx.mismatch("appseq", dict(start=s0), m[:60], ",".join(str(x) for x in seqs)[:60])
        else:
            (src, sep, cl, dst, is_ieee, status), res = a, b
            inp = dict(dst_mode=dst.addrmode, endpoint=getattr(dst, "endpoint", None), status=status)
            ctx.case(("bind", hx(src.serialize()), sep, cl, repr(dst)), sample=dict(kind="bind", ieee=is_ieee, status=status))
            ctx.count("bind:ieee=%d" % is_ieee)
            bq, bo, be = res["Bind_req"]
            uq, uo, ue = res["Unbind_req"]
            if be or ue or bq is None or uq is None:
                ctx.counterexample("bind-not-forwarded", inp, "request forwarded", dict(bind=be, unbind=ue), "a bind/unbind request is not forwarded to the NCP")
                impl = "none"
            else:
                def flds(q):
                    return (int(q.TargetNwkAddr), q.SrcIEEE.serialize(), int(q.SrcEndpoint), int(q.ClusterId), int(q.DstAddrMode), q.DstAddr.serialize(), int(q.DstEndpoint))
                if flds(bq) != flds(uq) or type(bq) is type(uq):
                    ctx.counterexample("bind-unbind-differ", inp, flds(bq), flds(uq), "bind and unbind are not encoded alike apart from the command")
                want_dst = dst.ieee.serialize() if is_ieee else int(dst.nwk).to_bytes(2, "little") + bytes(6)
                if bq.SrcIEEE.serialize() != src.serialize() or bq.SrcEndpoint != sep or bq.ClusterId != cl or bq.DstAddr.serialize() != want_dst:
                    ctx.counterexample("bind-field", inp, hx(want_dst), hx(bq.DstAddr.serialize()), "bind request does not carry source / endpoint / cluster / destination")
                impl = "req %d %d %s %d %d %d %s %d" % (bq.TSN, bq.TargetNwkAddr, hx(bq.SrcIEEE.serialize()), bq.SrcEndpoint, bq.ClusterId,
                                                       int(bq.DstAddrMode), hx(bq.DstAddr.serialize()), bq.DstEndpoint)
            if m is not None and m != impl:
                ctx.mismatch("appbind", inp, m, impl)


def search(ctx):
    return None


def replay(ctx, rep):
    print(rep.get("what")); print(rep.get("input")); print("expected", rep.get("expected")); print("observed", rep.get("observed"))
    return 1
