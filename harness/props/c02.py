"""C02 - the receiver is total: no input or handler failure makes it raise or go deaf.

Tie: `rx` correspondence in every link state (pack_seq 0..3, with/without transport, with/without
a pending ACK event), handler raising at random positions.
Observation checker: nothing escapes `data_received`; after any hostile prefix (emphasis on
checksum-valid headers with length 0..12 x every flag byte, stale/unsolicited ACKs of every sequence
value) and a flush of 330 zero bytes, two probe frames are delivered and acknowledged.
"""
import rxworld
import streams
from common import hx

ASSUMPTIONS = ["pending extents are flushed by 330 filler bytes in the probe (extents > 330 bytes are covered by the "
               "theorem C02_pending_bounded, not by the probe)"]


def hostile_prefix(r):
    k = r.randrange(7)
    if k == 6:
        ln = r.choice([0xFFFF, 0x1000, 400, 13])
        return "hdr-badcrc len=%d" % ln, streams.noise(r) + streams.header_only(ln, r.choice([0xC0, 0x00, 0x80]), good=False) \
            + bytes(r.getrandbits(8) for _ in range(r.choice([0, 2, 9])))
    if k == 0:
        ln = r.randrange(0, 13)
        fl = r.getrandbits(8)
        return "hdr-valid len=%d flags=%02x" % (ln, fl), streams.header_only(ln, fl) + bytes(r.getrandbits(8) for _ in range(r.choice([0, 1, 3, 8])))
    if k == 1:
        seq = r.randrange(4)
        return "ack seq=%d" % seq, streams.ack(seq, r.random() < 0.3) * r.choice([1, 2])
    if k == 2:
        labels, s = streams.stream(r, nmax=4, hostile=True)
        return "+".join(labels), s
    if k == 3:
        ln = r.choice([255, 300, 13, 20])
        return "hdr-valid len=%d partial" % ln, streams.header_only(ln, r.choice([0xC0, 0x40, 0x80, 0, 0xC1])) + bytes(r.getrandbits(8) for _ in range(r.randrange(0, 20)))
    if k == 4:
        return "noise", streams.noise(r) + streams.noise(r)
    return "first-short", streams.raw_frame(0x40 | (r.randrange(4) << 2), bytes(r.getrandbits(8) for _ in range(r.randrange(0, 4))))


def run(ctx):
    r = ctx.rng
    ctx.rule = ("hostile prefix (checksum-valid header with length 0..12 x random flag byte, ACKs of every sequence "
                "value, C01 hostile streams, partial long headers, noise, short first frames) + 330 filler bytes + two "
                "probe frames, in a random link state (pack_seq, transport present, ACK event pending) with the handler "
                "raising at random positions, under whole/byte-wise/cut/random chunkings; all non-trivial; distinct by input")
    all_lines, all_meta = [], []
    # systematic part: every length 0..12 x flag bytes (thorough: all 256; quick: every ACK/first/last/seq pattern)
    flagset = list(range(256)) if ctx.thorough() else [0x00, 0x01, 0x04, 0x11, 0x31, 0x40, 0x41, 0x80, 0x8C, 0xC0, 0xC1, 0xFF]
    systematic = [("hdr-valid len=%d flags=%02x" % (ln, fl),
                   streams.header_only(ln, fl) + bytes(r.getrandbits(8) for _ in range(r.choice([0, 2, 9]))))
                  for ln in range(13) for fl in flagset]
    systematic += [("ack seq=%d" % q, streams.ack(q, rt)) for q in range(4) for rt in (False, True)]
    systematic += [("hdr-badcrc len=%d" % ln, streams.header_only(ln, fl, good=False))
                   for ln in (0xFFFF, 0x8000, 0x1000, 400) for fl in (0xC0, 0x80, 0x00, 0x01)]
    nrandom = ctx.scale(150, 4000)
    for si in range(len(systematic) + nrandom):
        label, pre = systematic[si] if si < len(systematic) else hostile_prefix(r)
        seqs = [r.randrange(4), r.randrange(4)]
        probes = [streams.command_frame(r, seqs[0]), streams.command_frame(r, seqs[1])]
        s = pre + bytes(330) + probes[0] + probes[1]
        seq, tr, ev = r.randrange(4), r.random() < 0.8, r.choice([0, 0, 1, 1, 2, 3])
        for clabel, chunks in streams.chunkings(r, s, ctx.scale(2, 8), ctx.scale(1, 3)):
            if clabel == "bytewise" and r.random() < 0.7:
                continue
            raise_at = tuple(sorted(set(r.randrange(0, 4) for _ in range(r.randrange(0, 3)))))
            outs, final, raised = rxworld.session(chunks, seq, tr, ev, raise_at)
            inp = dict(prefix=label, stream=hx(s), chunking=clabel, chunks=[hx(c) for c in chunks],
                       state=dict(pack_seq=seq, transport=tr, ack_event=ev), handler_raises_at=list(raise_at))
            ctx.case((s, tuple(len(c) for c in chunks), seq, tr, ev, raise_at),
                     sample=dict(prefix=label, chunking=clabel, state=inp["state"], handler_raises_at=list(raise_at),
                                 tail_of_log=[x[:30] for x in ",".join(outs).split(",")[-4:]]))
            ctx.count("prefix:" + label.split(" ")[0].split("+")[0])
            ctx.count("state:transport=%d,send=%s" % (tr, ["none", "waiting", "acked", "expired"][ev]))
            if raised:
                ctx.counterexample("rx-raised", inp, "no exception", raised, "data_received raised %s" % raised)
            log = [x for o in outs if o != "." for x in o.split(",")]
            # probe: the last two hand-ups are the probe frames, each preceded by its ACK when a transport exists
            want = []
            for p, q in zip(probes, seqs):
                if tr:
                    want.append("W" + hx(streams.ack(q)))
                want.append("D")
            tail = [x if x.startswith("W") else x[:1] for x in log[-len(want):]]
            ds = [x for x in log if x.startswith("D")]
            ok = tail == want and len(ds) >= 2 and all(
                d.endswith(":" + hx(p[13:])) for p, d in zip(probes, ds[-2:]))
            if not ok:
                ctx.counterexample("deaf", inp, want, tail,
                                   "well-formed frames following the hostile input are not delivered and acknowledged")
            all_lines.append(rxworld.rx_line(chunks, seq, tr, ev))
            all_meta.append((inp, " ".join(outs) + " | " + final))
    # a rejected but complete frame immediately followed (same read or next read) by well-formed frames: every
    # frame the left-to-right parse of the stream selects (Lean `offline`, C01_complete) must come out
    direct = []
    for seqp in range(4):
        body = bytes(r.getrandbits(8) for _ in range(r.randrange(4, 40)))
        direct += [
            ("bad-body-crc", streams.raw_frame(0xC0 | (seqp << 2), body, good_crc16=False)),
            ("bad-body-crc-cont", streams.raw_frame(0x00 | (seqp << 2), body, good_crc16=False)),
            ("bad-body-crc-last", streams.raw_frame(0x80 | (seqp << 2), body, good_crc16=False)),
            ("short-first", streams.raw_frame(0x40 | (seqp << 2), body[:r.randrange(0, 4)])),
            ("short-cont", streams.raw_frame(0x00 | (seqp << 2), None, length=5 + r.randrange(1, 2)) + bytes(1)),
            ("ack-long", streams.header_only(5 + r.randrange(1, 9), (seqp << 4) | 1)),
            ("bad-crc8", streams.raw_frame(0xC0 | (seqp << 2), body, good_crc8=False)),
            ("wrong-type", streams.header_only(len(body) + 7, 0xC0, ftype=5) + bytes(2) + body),
        ]
    dlines, dmeta = [], []
    for label, bad in direct:
        seqs = [r.randrange(4) for _ in range(3)]
        probes = [streams.command_frame(r, q) for q in seqs]
        s = bad + b"".join(probes)
        for clabel, chunks in (("whole", [s]), ("after-bad", [bad, s[len(bad):]]),
                               ("inside-bad", [s[:max(1, len(bad) - 3)], s[max(1, len(bad) - 3):]])):
            ev = r.choice([0, 1, 2, 3])
            seq = r.randrange(4)
            outs, final, raised = rxworld.session(chunks, seq, True, ev, ())
            inp = dict(prefix=label, stream=hx(s), chunking=clabel, chunks=[hx(c) for c in chunks],
                       state=dict(pack_seq=seq, transport=True, ack_event=ev), handler_raises_at=[])
            ctx.case((s, clabel, seq, ev), sample=dict(prefix=label, chunking=clabel, state=inp["state"]))
            ctx.count("prefix:direct-" + label)
            if raised:
                ctx.counterexample("rx-raised", inp, "no exception", raised, "data_received raised %s" % raised)
            dlines.append("offline " + hx(s))
            dmeta.append((inp, outs, probes))
            all_lines.append(rxworld.rx_line(chunks, seq, True, ev))
            all_meta.append((inp, " ".join(outs) + " | " + final))
    oracle = ctx.driver.ask(dlines) if ctx.driver else [None] * len(dlines)
    for (inp, outs, probes), off in zip(dmeta, oracle):
        log = [x for o in outs if o != "." for x in o.split(",")]
        ds = [x for x in log if x.startswith("D")]
        if off is not None:
            want_n = 0 if off.startswith(".") else len(off.split(" rem=")[0].split(","))
        else:
            want_n = None
        # the probe frames lie outside every declared extent by construction unless the oracle says otherwise
        missing = [k for k, pr in enumerate(probes) if not any(d.endswith(":" + hx(pr[13:])) for d in ds)]
        if want_n is not None and want_n >= len(probes) and missing:
            ctx.counterexample("deaf-after-reject", inp, "all %d probe frames delivered" % len(probes),
                               "probe(s) %s missing; delivered %d frame(s)" % (missing, len(ds)),
                               "a well-formed frame directly behind a rejected frame is not delivered")
    if ctx.driver:
        ans = ctx.driver.ask(all_lines)
        for (inp, impl), m in zip(all_meta, ans):
            if rxworld.mask_like(m, impl) != impl:
                ctx.mismatch("rx", inp, m, impl)


def search(ctx):
    return None


def replay(ctx, rep):
    from props import c01
    return c01.replay(ctx, rep)
