"""C04 - every typed command survives encode -> wire -> decode unchanged.

Tie: the schema table is regenerated from the imported classes (translator 3); here real
`cls(**params)`, `to_frame()` and `from_frame()` of all 145 classes run against the Lean codec
(`enc` / `dec` ops over the regenerated table) on type-directed values: boundaries of every
integer / enum / bitmap field, empty / short / long lists, every optional prefix, and out-of-range
values that construction must refuse.
Observation checker (implementation only): bytes = 4-byte header + parameter encodings in schema
order (independent re-encoding from the descriptor table by the harness), decode(encode(c)) == c with
nothing left over (except the one ambiguous encoding of DESIGN.md 8.2), out-of-range refused.
"""
import codecio
import gen
from common import hx

ASSUMPTIONS = ["zigpy-provided wire types by wire footprint; bit-field structs as blobs",
               "IeeeAddrReq.Rsp with the trailing greedy list omitted decodes to the empty list (DESIGN.md 8.2)"]


def py_encode(desc, v):
    """independent encoder written from the descriptor (the 'schema order' oracle)"""
    k = desc[0]

    def sc(st, x):
        kind, n = st
        if kind == "uint":
            return int(x).to_bytes(n, "little", signed=False)
        if kind == "sint":
            return int(x).to_bytes(n, "little", signed=True)
        b = x.serialize() if hasattr(x, "serialize") else bytes(x)
        assert len(b) == n
        return bytes(b)

    def row(rec, it):
        if len(rec) == 1:
            return sc(rec[0], it)
        return b"".join(sc(st, getattr(it, f.name)) for st, f in zip(rec, type(it).fields))
    if k == "sc":
        return sc(desc[1], v)
    if k == "lvBytes":
        return len(v).to_bytes(desc[1], "little") + bytes(v)
    if k == "lvList":
        return len(v).to_bytes(desc[1], "little") + b"".join(row(desc[2], it) for it in v)
    if k == "greedy":
        return b"".join(row(desc[1], it) for it in v)
    if k == "simpleDesc":
        return (bytes([int(v.endpoint)]) + int(v.profile).to_bytes(2, "little") + int(v.device_type).to_bytes(2, "little")
                + bytes([int(v.device_version), len(v.input_clusters), len(v.output_clusters)])
                + b"".join(int(x).to_bytes(2, "little") for x in list(v.input_clusters) + list(v.output_clusters)))
    raise ValueError(desc)


def expected_bytes(idx, cmd):
    row = codecio.table()[idx]
    out = int(row[2]).to_bytes(4, "little")
    for (name, desc, optional, ev) in row[4]:
        parts = name.split(".")
        v = getattr(cmd, parts[0])
        for p in parts[1:]:
            v = None if v is None else getattr(v, p)
        if v is None:
            continue
        out += py_encode(desc, v)
    return out


def canon_eq(cmd, back):
    """equality up to the reading 8.2 (omitted trailing greedy list == empty list)"""
    if cmd == back:
        return True
    if type(cmd) is not type(back):
        return False
    for p in type(cmd).schema:
        a, b = getattr(cmd, p.name), getattr(back, p.name)
        if a == b:
            continue
        if p.optional and a is None and b == [] and p is type(cmd).schema[-1]:
            continue
        return False
    return True


def boundary_values(T, rnd):
    import enum
    import zigpy.types as zt
    if isinstance(T, type) and issubclass(T, zt.FixedIntType) and not issubclass(T, enum.Enum):
        lo, hi = gen.int_bounds(T)
        return [lo, hi, lo + 1 if lo + 1 <= hi else lo, hi - 1 if hi - 1 >= lo else hi]
    return []


def bad_values(T, rnd):
    """(label, value) pairs that lie outside wire type T: typed instances (which bypass coercion) and plain values"""
    import enum
    import zigpy.types as zt
    from zigpy_zboss.types import basic
    out = []
    if not isinstance(T, type) or issubclass(T, enum.Enum):
        return out
    if issubclass(T, (zt.EUI64, zt.KeyData)) or issubclass(T, basic.FixedList):
        n = 8 if issubclass(T, zt.EUI64) else 16 if issubclass(T, zt.KeyData) else T._length
        item = getattr(T, "_item_type", zt.uint8_t)
        good = [gen.gen(item, rnd) for _ in range(n)]
        out.append(("typed, one item short", T(good[:-1])))
        out.append(("typed, one item too many", T(good + good[:1])))
        out.append(("plain list, one item short", list(good[:-1])))
        if issubclass(item, zt.FixedIntType) and not issubclass(item, enum.Enum):
            lo, hi = gen.int_bounds(item)
            out.append(("typed, item out of range", T(good[:-1] + [hi + 1])))
    elif issubclass(T, zt.LVBytes):
        out.append(("typed, 256 bytes behind a 1-byte length", T(bytes(256))))
        out.append(("plain bytes, 256 bytes behind a 1-byte length", bytes(256)))
    elif issubclass(T, basic.LVList):
        item = T._item_type
        hdr = getattr(T, "_header", zt.uint8_t)
        if hdr._size == 1:
            out.append(("typed, 256 items behind a 1-byte count", T([gen.gen(item, rnd) for _ in range(256)])))
        if issubclass(item, zt.FixedIntType) and not issubclass(item, enum.Enum):
            lo, hi = gen.int_bounds(item)
            out.append(("typed, item out of range", T([hi + 1])))
            out.append(("plain list, item out of range", [lo - 1]))
            wider = zt.int32s if item._size < 4 else None
            if wider is not None:
                out.append(("typed list, item of a wider integer type out of range", T([wider(hi + 1)])))
                if lo == 0:
                    out.append(("typed list, negative item of a signed integer type", T([zt.int8s(-1)])))
    elif issubclass(T, zt.List):
        item = T._item_type
        if issubclass(item, zt.FixedIntType) and not issubclass(item, enum.Enum):
            lo, hi = gen.int_bounds(item)
            out.append(("typed, item out of range", T([gen.gen(item, rnd), hi + 1])))
    return out


def run(ctx):
    import zigpy.types as zt
    import enum
    # a list parameter that was changed in place between two uses: the command carries the content the list has now
    from props import c16
    c16.run_list_mutation(ctx)
    r = ctx.rng
    tab = codecio.table()
    ctx.rule = ("all 145 classes x %d generated assignments each (type-directed: integer boundaries, every enum / "
                "bitmap member or all-bits, empty/short/long lists, every optional prefix), plus per integer field an "
                "out-of-range value (max+1, min-1) that must be refused; non-trivial = class with >= 1 parameter "
                "beyond TSN; distinct by (class, bytes)" % ctx.scale(8, 120))
    lines, metas = [], []
    for idx, (cls, qn, hdr, blocking, fl) in enumerate(tab):
        nopts = sum(1 for p in cls.schema if p.optional)
        for k in range(ctx.scale(8, 120)):
            size = r.choice([None, None, 0, 1, 2, 40]) if k % 3 == 0 else None
            cmd = gen.gen_cmd(cls, r, nopt=(k % (nopts + 1)), size=size)
            # boundary override of one integer field
            if k % 2 == 1:
                ints = [p for p in cls.schema if boundary_values(p.type, r) and getattr(cmd, p.name) is not None]
                if ints:
                    p = r.choice(ints)
                    kw = {q.name: getattr(cmd, q.name) for q in cls.schema if getattr(cmd, q.name) is not None}
                    kw[p.name] = p.type(r.choice(boundary_values(p.type, r)))
                    cmd = cls(**kw)
            fr = cmd.to_frame()
            body = fr.hl_packet.serialize()[2:]
            if k % 4 == 0:
                # encoding and decoding are functions of the value alone: a second run gives the same result
                body2 = cmd.to_frame().hl_packet.serialize()[2:]
                if body2 != body:
                    ctx.counterexample("encoding-twice-differs", dict(cls=qn), hx(body), hx(body2),
                                       "the same command object encodes to different bytes the second time")
                if ((hdr >> 8) & 0xFF) in (1, 2):
                    try:
                        d1, d2 = cls.from_frame(cmd.to_frame()), cls.from_frame(cmd.to_frame())
                        if d1 != d2:
                            ctx.counterexample("decoding-twice-differs", dict(cls=qn, bytes=hx(body)), repr(d1)[:120], repr(d2)[:120],
                                               "the same bytes decode to different commands the second time")
                    except Exception:
                        pass      # reported by the round-trip check below
            strs = codecio.to_strings(idx, cmd)
            lines.append("enc %d %s" % (idx, " ".join(strs)))
            lines.append("dec %d %s" % (idx, hx(body[4:])))
            metas.append(("roundtrip", idx, cmd, body, strs))
        # refusal: out-of-range integer
        for p in cls.schema:
            bv = boundary_values(p.type, r)
            if not bv:
                continue
            lo, hi = gen.int_bounds(p.type)
            for bad in (hi + 1, lo - 1):
                base = gen.gen_cmd(cls, r, nopt=nopts)
                kw = {q.name: getattr(base, q.name) for q in cls.schema}
                kw[p.name] = bad
                try:
                    cls(**kw)
                    refused = False
                except (ValueError, KeyError):
                    refused = True
                strs = codecio.to_strings(idx, base)
                # replace the corresponding wire field (flattened names start with the parameter name)
                for j, (name, desc, optional, ev) in enumerate(fl):
                    if name == p.name:
                        strs[j] = "n%d" % bad
                lines.append("enc %d %s" % (idx, " ".join(strs)))
                metas.append(("refuse", idx, (p.name, bad), refused, strs))
            break   # one integer field per class keeps the volume down
        # refusal: values outside list / byte-string / fixed-size types, typed (no coercion) and plain
        for p in cls.schema:
            for label, bad in bad_values(p.type, r):
                base = gen.gen_cmd(cls, r, nopt=nopts)
                kw = {q.name: getattr(base, q.name) for q in cls.schema}
                kw[p.name] = bad
                try:
                    cls(**kw)
                    refused = False
                except (ValueError, KeyError):
                    refused = True
                metas.append(("refuse2", idx, (p.name, label, type(bad).__name__, len(bad)), refused, None))
    ans = ctx.driver.ask(lines) if ctx.driver else None
    pos = 0
    for m in metas:
        if m[0] == "roundtrip":
            _, idx, cmd, body, strs = m
            cls = tab[idx][0]
            nparams = sum(1 for p in cls.schema if getattr(cmd, p.name) is not None)
            ctx.case((idx, body), nontrivial=nparams > 1,
                     sample=dict(cls=tab[idx][1], values=strs, bytes=hx(body)))
            ctx.count("ctype=%d" % ((tab[idx][2] >> 8) & 0xFF))
            ctx.count("optional-prefix=%d/%d" % (sum(1 for p in cls.schema if p.optional and getattr(cmd, p.name) is not None),
                                                sum(1 for p in cls.schema if p.optional)))
            inp = dict(cls=tab[idx][1], values=strs)
            want = expected_bytes(idx, cmd)
            if body != want:
                ctx.counterexample("layout", inp, hx(want), hx(body),
                                   "bytes are not the 4-byte header followed by the parameter encodings in schema order")
            host_parses = ((tab[idx][2] >> 8) & 0xFF) in (1, 2)
            try:
                back = cls.from_frame(cmd.to_frame())
                impl_dec = ("partial " if back._partial else "full ") + " ".join(codecio.to_strings(idx, back))
                if host_parses and not canon_eq(cmd, back):
                    ctx.counterexample("roundtrip", inp, strs, codecio.to_strings(idx, back),
                                       "decoding the command's own bytes yields a different command")
            except Exception as ex:
                impl_dec = "err " + ("keyError" if isinstance(ex, KeyError) else "valueError")
                if host_parses:
                    ctx.counterexample("roundtrip", inp, "decodes", "%s: %s" % (type(ex).__name__, ex),
                                       "decoding the command's own bytes fails")
            if ans:
                if ans[pos] != "ok " + hx(body):
                    ctx.mismatch("enc", inp, ans[pos], "ok " + hx(body))
                if ans[pos + 1] != impl_dec:
                    ctx.mismatch("dec", dict(cls=tab[idx][1], payload=hx(body[4:])), ans[pos + 1], impl_dec)
            pos += 2
        elif m[0] == "refuse2":
            _, idx, (pname, label, tname, n), refused, _ = m
            ctx.case((idx, pname, label), sample=dict(cls=tab[idx][1], param=pname, value=label, refused=refused))
            ctx.count("refusal-probe-" + label.split(",")[0])
            if not refused:
                ctx.counterexample("out-of-range-accepted",
                                   dict(cls=tab[idx][1], param=pname, value="%s (%s of %d items)" % (label, tname, n)),
                                   "refused at construction", "accepted",
                                   "a parameter value outside its type's range is accepted at construction")
        else:
            _, idx, (pname, bad), refused, strs = m
            ctx.case((idx, pname, bad), sample=None)
            ctx.count("refusal-probe")
            inp = dict(cls=tab[idx][1], param=pname, value=bad)
            if not refused:
                ctx.counterexample("out-of-range-accepted", inp, "refused at construction", "accepted",
                                   "an out-of-range parameter value is accepted at construction")
            if ans:
                want = "refuse" if refused else None
                if (ans[pos] == "refuse") != refused:
                    ctx.mismatch("enc-refuse", inp, ans[pos], "refuse" if refused else "accepted")
            pos += 1


def search(ctx):
    return None


def replay(ctx, rep):
    print(rep.get("what")); print(rep.get("input")); print("expected", rep.get("expected")); print("observed", rep.get("observed"))
    return 1
