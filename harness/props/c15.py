"""C15 - failure responses cut short after the status are returned, never mis-parsed.

Tie: real `Rsp.from_frame` vs the Lean `fromPayload` model (`dec` op over the regenerated table) on
every truncation point of the encodings of all 69 response classes, with status 0 / 1 / 24, and
with 1-2 surplus bytes.
Observation checker (implementation only): status != 0 and the three status fields complete =>
a partial command carrying exactly TSN, category, code and the parameters completely contained in
the prefix; status == 0 cut short (not at an optional / greedy element boundary) => rejected;
surplus bytes (non-greedy last field) => rejected; a successful complete decode re-encodes to the
bytes received.
"""
import codecio
import gen
from common import hx
from props.c04 import py_encode

ASSUMPTIONS = ["greedy last fields (NwkAddrReq.Rsp, IeeeAddrReq.Rsp): cut-short / surplus claimed at non-element "
               "boundaries only (DESIGN.md 8.3)", "'rejected' = any exception"]


def frame_of(cls, payload):
    from zigpy_zboss.frames import Frame, HLPacket, LLHeader
    import zigpy_zboss.types as t
    return Frame(LLHeader(), HLPacket(cls.header, t.Bytes(payload)))


def decode(cls, idx, payload):
    try:
        back = cls.from_frame(frame_of(cls, payload))
        return back, ("partial " if back._partial else "full ") + " ".join(codecio.to_strings(idx, back))
    except KeyError:
        return None, "err keyError"
    except ValueError:
        return None, "err valueError"
    except Exception as ex:       # any other exception type: still "rejected", but not what the model predicts
        return None, "err other:" + type(ex).__name__


def run(ctx):
    import zigpy_zboss.types as t
    r = ctx.rng
    tab = codecio.table()
    rsp = [(i, row) for i, row in enumerate(tab) if (row[2] >> 8) & 0xFF == 1]
    ctx.rule = ("all %d response classes x %d generated values x status code {0, 1, 24} x every truncation point of the "
                "parameter bytes + 1 and 2 surplus bytes; non-trivial = truncation strictly inside the encoding after the "
                "status fields; distinct by (class, payload bytes)" % (len(rsp), ctx.scale(2, 12)))
    lines, metas = [], []
    for idx, (cls, qn, hdr, blocking, fl) in rsp:
        nopts = sum(1 for p in cls.schema if p.optional)
        special = nopts > 0 or any(d[0] == "greedy" for (n, d, o, ev) in fl)
        # the few classes with optional trailing parameters / a trailing greedy list get many more values: every
        # combination of "which optional parameters are present" x list lengths matters there
        for rep in range(ctx.scale(2, 12) * (10 if special else 1)):
            for status in (0, 1, 24):
                base = gen.gen_cmd(cls, r, nopt=r.randrange(nopts + 1))
                kw = {p.name: getattr(base, p.name) for p in cls.schema if getattr(base, p.name) is not None}
                kw["StatusCat"] = t.StatusCategory(r.choice([0, 0, 4, 5]))
                kw["StatusCode"] = t.StatusCodeGeneric(status)
                cmd = cls(**kw)
                payload = cmd.to_frame().hl_packet.serialize()[6:]
                # parameter boundaries (Python parameters, in schema order)
                bounds = [0]
                for p in cls.schema:
                    v = getattr(cmd, p.name)
                    if v is None:
                        continue
                    bounds.append(bounds[-1] + len(v.serialize()))
                last = cls.schema[-1]
                greedy_last = any(d[0] == "greedy" for (n, d, o, ev) in fl if n.split(".")[0] == last.name) \
                    and getattr(cmd, last.name) is not None
                greedy_schema = any(d[0] == "greedy" for (n, d, o, ev) in fl if n.split(".")[0] == last.name)
                cuts = list(range(len(payload) + 1)) + [len(payload) + 1, len(payload) + 2]
                for k in cuts:
                    data = payload[:k] if k <= len(payload) else payload + bytes(r.getrandbits(8) for _ in range(k - len(payload)))
                    lines.append("dec %d %s" % (idx, hx(data)))
                    metas.append((idx, cls, cmd, status, k, data, payload, bounds, greedy_last, greedy_schema))
    ans = ctx.driver.ask(lines) if ctx.driver else [None] * len(lines)
    for (idx, cls, cmd, status, k, data, payload, bounds, greedy_last, greedy_schema), a in zip(metas, ans):
        back, impl = decode(cls, idx, data)
        qn = codecio.table()[idx][1]
        inp = dict(cls=qn, status=status, full_payload=hx(payload), cut=k, data=hx(data))
        inside = 3 <= k < len(payload)
        ctx.case((idx, bytes(data)), nontrivial=inside,
                 sample=dict(cls=qn, status=status, cut=k, of=len(payload), result=impl[:60]))
        ctx.count("status=%d:%s" % (status, "surplus" if k > len(payload) else "complete" if k == len(payload) else "cut>=3" if k >= 3 else "cut<3"))
        if a is not None and a != impl:
            ctx.mismatch("dec", inp, a, impl)
        params = [p for p in cls.schema if getattr(cmd, p.name) is not None]
        # a trailing greedy list takes whole elements: only a cut / surplus that is not a whole number of elements is "cut
        # short" / "surplus" there (reading 8.3)
        item = getattr(getattr(cls.schema[-1].type, "_item_type", None), "_size", None) if greedy_schema else None
        if k > len(payload):
            mid_element = greedy_schema and item and getattr(cmd, cls.schema[-1].name) is not None and (k - len(payload)) % item != 0
            if (not greedy_schema or mid_element) and back is not None and not (status != 0 and back._partial):
                ctx.counterexample("surplus-accepted", inp, "rejected", impl, "a response followed by surplus bytes is delivered")
            continue
        if k == len(payload):
            if back is None:
                ctx.counterexample("complete-rejected", inp, "decoded", impl, "a complete response is rejected")
            continue
        if k < 3:
            if back is not None:
                ctx.counterexample("cut-before-status-accepted", inp, "rejected", impl, "a response cut before its status is delivered")
            continue
        # 3 <= k < len(payload)
        complete = [p for p, b in zip(params, bounds[1:]) if b <= k]
        at_boundary = k in bounds
        if greedy_last and k >= bounds[len(params) - 1]:
            # inside the trailing greedy list: a whole number of elements is a valid (shorter) list (reading 8.3); a cut in
            # the middle of an element is a cut-short response
            if item and (k - bounds[len(params) - 1]) % item != 0 and status == 0 and back is not None:
                ctx.counterexample("zero-status-cut-accepted", inp, "rejected", impl,
                                   "a status-zero response cut in the middle of a list element is delivered")
            continue
        if status != 0:
            if back is None or not back._partial and not at_boundary:
                ctx.counterexample("failure-not-delivered", inp, "partial command with the status", impl,
                                   "a failure response cut short after the status is not delivered (the caller would time out)")
                continue
            for p in cls.schema:
                got = getattr(back, p.name)
                want = getattr(cmd, p.name) if p in complete else None
                if got != want and not (got == [] and want is None):
                    ctx.counterexample("failure-misparsed", inp, "%s=%r" % (p.name, want), "%s=%r" % (p.name, got),
                                       "a cut-short failure response is delivered with shifted or invented field values")
                    break
        else:
            remaining = params[len(complete):]
            only_optional_left = at_boundary and all(p.optional for p in remaining)
            if back is not None and not only_optional_left:
                ctx.counterexample("zero-status-cut-accepted", inp, "rejected", impl,
                                   "a status-zero response that is cut short is delivered")
        # soundness: whatever complete command comes back re-encodes to the received bytes
        if back is not None and not back._partial:
            try:
                again = back.to_frame().hl_packet.serialize()[6:]
                if again != bytes(data):
                    ctx.counterexample("unsound-decode", inp, hx(data), hx(again), "decoded command does not re-encode to the received bytes")
            except Exception:
                pass


def search(ctx):
    return None


def replay(ctx, rep):
    print(rep.get("what")); print(rep.get("input")); print("expected", rep.get("expected")); print("observed", rep.get("observed"))
    inp = rep.get("input") or {}
    if "cls" in inp and "data" in inp:
        tab = codecio.table()
        idx = next(i for i, row in enumerate(tab) if row[1] == inp["cls"])
        data = bytes.fromhex(inp["data"]) if inp["data"] != "-" else b""
        print("now:", decode(tab[idx][0], idx, data)[1])
    return 1
