"""C03 - checksums equal CRC-8/KOOP and CRC-16/KERMIT.

Tie: the two tables are regenerated (translator); here the *algorithm*
(`_update`, `initial_start`, `update`, `copy`, `digest`) of the real classes is
run against the Lean model (`crc8`/`crc16` ops) and against the bit-serial
catalogue specification (`crc8spec`/`crc16spec` ops); the consequences (1/2-bit
header corruptions, body bursts <= 16 bits are rejected) are replayed on the real
`Frame.deserialize`.
"""
from common import hx

ASSUMPTIONS = [
    "CRC register values stay within the register width (initial_start in 0..255 / 0..65535)",
    "burst theorem: bursts confined to the checksummed body bytes or to the checksum field (DESIGN.md 8.1)",
]


def _inputs(ctx):
    r = ctx.rng
    yield b"123456789"
    for n in range(0, 40):
        yield bytes(n)
        yield bytes([0xFF]) * n
        yield bytes(r.getrandbits(8) for _ in range(n))
    for b in range(256):
        yield bytes([b])
    for _ in range(ctx.scale(2000, 200000)):
        n = r.choice([1, 2, 3, 4, 5, 7, 16, 64, 247, 300, r.randrange(0, 600)])
        yield bytes(r.getrandbits(8) for _ in range(n))


def run(ctx):
    from zigpy_zboss.checksum import CRC8, CRC16
    r = ctx.rng
    ctx.rule = ("byte strings: catalogue check string, runs of 00/FF/random of every length 0..39, all 256 single "
                "bytes, random strings up to 600 bytes; each with a random initial register and a random "
                "update() split; non-trivial = non-empty string; distinct by (data, init)")
    cases = []
    for d in _inputs(ctx):
        i8 = r.choice([0, 0, 0xFF, r.getrandbits(8)])
        i16 = r.choice([0, 0, 0xFFFF, r.getrandbits(16)])
        cut = r.randrange(0, len(d) + 1)
        cases.append((d, i8, i16, cut))
    lines = []
    for d, i8, i16, cut in cases:
        lines += ["crc8 %02x %s" % (i8, hx(d)), "crc16 %04x %s" % (i16, hx(d)),
                  "crc8spec %s" % hx(d), "crc16spec %s" % hx(d)]
    ans = ctx.driver.ask(lines) if ctx.driver else None
    for k, (d, i8, i16, cut) in enumerate(cases):
        impl8 = int(CRC8(d, i8).digest())
        impl16 = int(CRC16(d, i16).digest())
        # incremental use of the real classes
        h8 = CRC8(d[:cut], i8); h8c = h8.copy(); h8c.update(d[cut:])
        h16 = CRC16(d[:cut], i16); h16c = h16.copy(); h16c.update(d[cut:])
        inc_ok = int(h8c.digest()) == impl8 and int(h16c.digest()) == impl16
        z8 = int(CRC8(d).digest())
        z16 = int(CRC16(d).digest())
        ctx.case((d, i8, i16), nontrivial=len(d) > 0,
                 sample=dict(data=hx(d), init8=i8, init16=i16, crc8=impl8, crc16=impl16))
        ctx.count("len=%s" % ("0" if not d else "1" if len(d) == 1 else "2-16" if len(d) <= 16 else "17-247" if len(d) <= 247 else ">247"))
        if not inc_ok:
            ctx.counterexample("incremental", dict(data=hx(d), cut=cut, init8=i8, init16=i16),
                               "update(a);update(b) == update(a+b)", "digests differ",
                               "incremental feeding gives a different digest than feeding at once")
        if ans is None:
            continue
        m8, m16, s8, s16 = ans[4 * k:4 * k + 4]
        if "%02x" % impl8 != m8:
            ctx.mismatch("crc8", dict(data=hx(d), init=i8), m8, "%02x" % impl8)
        if "%04x" % impl16 != m16:
            ctx.mismatch("crc16", dict(data=hx(d), init=i16), m16, "%04x" % impl16)
        if "%02x" % z8 != s8:
            ctx.counterexample("crc8-not-koop", dict(data=hx(d)), s8, "%02x" % z8,
                               "CRC8(data).digest() differs from CRC-8/KOOP (bit-serial catalogue definition)")
        if "%04x" % z16 != s16:
            ctx.counterexample("crc16-not-kermit", dict(data=hx(d)), s16, "%04x" % z16,
                               "CRC16(data).digest() differs from CRC-16/KERMIT (bit-serial catalogue definition)")
    _detect(ctx)
    _detect_rx(ctx)
    _detect_hdr_rx(ctx)


def _detect_hdr_rx(ctx):
    """Every 1- and 2-bit corruption of the 40 header bits, replayed on the real receiver in two situations: on a
    fresh receiver, directly behind the intact frame itself (a decoder that remembers anything about the header it
    validated last must not let a damaged repetition through), and behind a frame with an intact header and a damaged body
    (whole, in two reads, cut inside).  The damaged frame is never acknowledged nor delivered."""
    import itertools
    import rxworld
    import streams
    r = ctx.rng
    frames = [streams.command_frame(r, r.randrange(4)), streams.ack(r.randrange(4)),
              streams.raw_frame(0x80 | (r.randrange(4) << 2), bytes(r.getrandbits(8) for _ in range(9)))]
    # headers whose checksum byte is 0x00 or has one or two bits set: a 1- / 2-bit error can leave 0x00 there (a decoder
    # that reads an all-zero checksum field as "not set" lets such a header through)
    low = {}
    for _ in range(4000):
        f = streams.raw_frame(r.choice([0xC0, 0x40, 0x80, 0x00]) | (r.randrange(4) << 2) | r.choice([0, 0, 2]),
                              bytes(r.getrandbits(8) for _ in range(r.randrange(4, 60))))
        w = bin(f[6]).count("1")
        if w <= 2 and w not in low:
            low[w] = f
        if len(low) == 3:
            break
    frames += [low[w] for w in sorted(low)]
    allpairs = list(itertools.combinations(range(40), 2))
    # a frame whose header is intact and whose body is damaged (no 0xDE inside, so that nothing in it looks like a start):
    # the receiver drops it - and must not carry "the header was fine" over to whatever comes next
    bad = bytearray(streams.raw_frame(0xC0 | (r.randrange(4) << 2), bytes(r.choice([1, 2, 3, 0x55, 0xAA, 0x7F]) for _ in range(30))))
    bad[-1] ^= 0x10
    bad = bytes(bad)
    bad_alone, _f, _r = rxworld.session([bad])
    bad_base = [x[:1] for o in bad_alone if o != "." for x in o.split(",")]
    for fi, good in enumerate(frames):
        pats = [(a,) for a in range(40)] + (allpairs if ctx.thorough() else r.sample(allpairs, 160))
        ones = [32 + k for k in range(8) if good[6] >> k & 1]
        if len(ones) <= 2:
            # the patterns that zero the checksum byte, alone and together with one more bit
            zeroing = [tuple(ones)] if ones else []
            if len(ones) <= 1:
                zeroing += [tuple(sorted(set(ones + [b]))) for b in range(32)]
            pats = [p for p in zeroing if p] + pats
        is_ack = bool(good[5] & 1)
        alone, _f, _r = rxworld.session([good])
        base = [x[:1] for x in alone[0].split(",")] if alone[0] != "." else []
        for pat in pats:
            b = bytearray(good)
            for bit in pat:
                b[2 + bit // 8] ^= 1 << (bit % 8)
            for label, chunks in (("fresh", [bytes(b)]), ("behind-intact", [good + bytes(b)]), ("behind-intact-2reads", [good, bytes(b)]),
                                  ("behind-damaged-body", [bad + bytes(b)]), ("behind-damaged-body-2reads", [bad, bytes(b)]),
                                  ("behind-damaged-body-cut", [bad[:12], bad[12:], bytes(b)])):
                outs, final, raised = rxworld.session(chunks)
                log = [x[:1] for o in outs if o != "." for x in o.split(",")]
                want = [] if label == "fresh" else (bad_base if label.startswith("behind-damaged") else base)
                ctx.case(("hdr-rx", fi, pat, label), sample=dict(frame=hx(good)[:28], bits=list(pat), situation=label))
                ctx.count("hdr-rx-" + label)
                if b[6] == 0:
                    ctx.count("hdr-rx-checksum-byte-zeroed")
                # the damaged copy may not add an acknowledgement or a delivery (an ACK frame adds nothing either way)
                if log != want and not (is_ack and log == want):
                    ctx.counterexample("header-corruption-accepted",
                                       dict(frame=hx(good), damaged=hx(bytes(b)), bits=list(pat), situation=label),
                                       want, log, "a frame whose header has %d corrupted bit(s) is accepted by the receiver" % len(pat))


def _detect_rx(ctx):
    """Bursts in the bodies of every kind of frame the receiver accepts (single, first, continuation and last
    fragments), replayed on the real `ZbossNcpProtocol.data_received`: the damaged frame is neither acknowledged
    nor delivered (oracle for what else a resynchronisation may find: the Lean receiver model)."""
    import rxworld
    import streams
    r = ctx.rng
    jobs = []
    for _ in range(ctx.scale(6, 60)):
        wires = streams.fragments_wire(r, r.choice([250, 300, 500, 600, 760]))
        victim = r.randrange(len(wires))
        for _ in range(ctx.scale(12, 60)):
            raw = wires[victim]
            if r.random() < 0.5:
                # the same fragment as the NCP would re-send it / with acknowledgement bits in its flags: still a data
                # frame, still protected by the body checksum
                rb = bytearray(raw)
                rb[5] |= r.choice([0x02, 0x10, 0x20, 0x30, 0x32])
                rb[6] = streams.crc8(bytes(rb[2:6]))
                raw = bytes(rb)
            nbits = (len(raw) - 7) * 8
            ln = min(r.randrange(1, 17), nbits)
            start = r.choice([0, 8, 16, nbits - ln, r.randrange(0, nbits - ln + 1)])
            pat = [1] + [r.getrandbits(1) for _ in range(ln - 2)] + ([1] if ln > 1 else [])
            b = bytearray(raw)
            for k, bit in enumerate(pat):
                if bit:
                    pos = 7 * 8 + start + k
                    b[pos // 8] ^= 1 << (pos % 8)
            chunks = wires[:victim] + [bytes(b)]
            jobs.append((chunks, victim, len(wires), start, pat))
    ans = ctx.driver.ask([rxworld.rx_line(c) for c, *_ in jobs]) if ctx.driver else None
    for k, (chunks, victim, n, start, pat) in enumerate(jobs):
        outs, final, raised = rxworld.session(chunks)
        kind = "first" if victim == 0 else "last" if victim == n - 1 else "continuation"
        ctx.case(("rxburst", chunks[-1]), sample=dict(fragment=kind, start_bit=start, pattern=pat, receiver_output=outs[-1]))
        ctx.count("rx-burst-" + kind)
        impl = " ".join(outs) + " | " + final
        if ans is not None and rxworld.mask_like(ans[k], impl) == impl:
            continue            # the model reproduces the receiver byte for byte (including any resynchronisation)
        if outs[-1] != ".":
            ctx.counterexample("body-burst-accepted-by-receiver",
                               dict(chunks=[hx(c) for c in chunks], fragment=kind, start_bit=start, pattern=pat),
                               "the damaged %s fragment is neither acknowledged nor delivered" % kind, outs[-1],
                               "an error burst of <= 16 bits in the body of a %s fragment is accepted by the receiver" % kind)
        elif ans is not None:
            ctx.mismatch("rx-burst", dict(chunks=[hx(c) for c in chunks]), ans[k], impl)


def _frame_bytes(r, n):
    from zigpy_zboss.frames import Frame, HLPacket, LLHeader
    from zigpy_zboss.checksum import CRC8
    import zigpy_zboss.types as t
    data = bytes(r.getrandbits(8) for _ in range(n))
    hl = HLPacket(t.HLCommonHeader(r.getrandbits(32)), t.Bytes(data))
    ll = (LLHeader().with_signature(Frame.signature).with_size(hl.length + 5)
          .with_type(t.TYPE_ZBOSS_NCP_API_HL).with_flags(t.LLFlags.FirstFrag | t.LLFlags.LastFrag | t.LLFlags(r.randrange(4) << 2)))
    ll = ll.with_crc8(CRC8(ll.serialize()[2:6]).digest())
    return Frame(ll, hl).serialize()


def _accepts(raw):
    from zigpy_zboss.frames import Frame
    try:
        Frame.deserialize(raw)
        return True
    except ValueError:
        return False


def _detect(ctx):
    """Replay the error-detection consequences on the real frame decoder."""
    r = ctx.rng
    nframes = ctx.scale(3, 40)
    for _ in range(nframes):
        raw = _frame_bytes(r, r.choice([0, 1, 5, 40, 200]))
        if not _accepts(raw):
            ctx.counterexample("valid-frame-rejected", dict(frame=hx(raw)), "accepted", "rejected",
                               "Frame.deserialize rejects a frame with valid checksums")
            continue
        # all 1- and 2-bit patterns over the 40 header bits (bytes 2..6)
        for i in range(40):
            for j in range(i, 40):
                b = bytearray(raw)
                b[2 + i // 8] ^= 1 << (i % 8)
                if j != i:
                    b[2 + j // 8] ^= 1 << (j % 8)
                ctx.case(("hd", bytes(b)), sample=None)
                ctx.count("header-bitflip")
                if _accepts(bytes(b)):
                    # a flipped length field changes the extent; only a *checksum* acceptance matters
                    from zigpy_zboss.checksum import CRC8
                    if int(CRC8(bytes(b[2:6])).digest()) == b[6]:
                        ctx.counterexample("header-corruption-accepted", dict(frame=hx(raw), bits=[i, j]),
                                           "rejected", "accepted",
                                           "a 1/2-bit corruption of the header passes the header checksum")
        # bursts of up to 16 bits inside the body (after the 2 checksum bytes) or inside the checksum field
        body0, nbits = 9 * 8, (len(raw) - 9) * 8
        for _ in range(ctx.scale(60, 600)):
            if nbits <= 0:
                break
            ln = r.randrange(1, 17)
            if ln > nbits:
                ln = nbits
            start = r.randrange(0, nbits - ln + 1)
            pat = [1] + [r.getrandbits(1) for _ in range(ln - 1)]
            b = bytearray(raw)
            for k, bit in enumerate(pat):
                if bit:
                    pos = body0 + start + k
                    b[pos // 8] ^= 1 << (pos % 8)
            ctx.case(("burst", bytes(b)))
            ctx.count("body-burst")
            if _accepts(bytes(b)):
                ctx.counterexample("body-burst-accepted", dict(frame=hx(raw), start=start, pattern=pat),
                                   "rejected", "accepted", "an error burst of <= 16 bits in a body is accepted")


def search(ctx):
    """Extended search when something no longer checks: exhaustive single-byte + table index scan."""
    from zigpy_zboss.checksum import CRC8, CRC16
    if ctx.driver is None:
        return None
    lines = []
    data = [bytes([a, b]) for a in range(256) for b in (0, 1, 0x80, 0xFF)] + [bytes([a]) for a in range(256)]
    for d in data:
        lines += ["crc8spec %s" % hx(d), "crc16spec %s" % hx(d)]
    ans = ctx.driver.ask(lines)
    for k, d in enumerate(data):
        if "%02x" % int(CRC8(d).digest()) != ans[2 * k]:
            return dict(signature="crc8-not-koop", input=dict(data=hx(d)), expected=ans[2 * k],
                        observed="%02x" % int(CRC8(d).digest()),
                        what="CRC8(data).digest() differs from CRC-8/KOOP")
        if "%04x" % int(CRC16(d).digest()) != ans[2 * k + 1]:
            return dict(signature="crc16-not-kermit", input=dict(data=hx(d)), expected=ans[2 * k + 1],
                        observed="%04x" % int(CRC16(d).digest()),
                        what="CRC16(data).digest() differs from CRC-16/KERMIT")
    return None


def replay(ctx, rep):
    from zigpy_zboss.checksum import CRC8, CRC16
    inp = rep.get("input") or {}
    print("replay", rep.get("what"))
    if "data" in inp:
        d = bytes.fromhex(inp["data"]) if inp["data"] != "-" else b""
        s8, s16 = ctx.driver.ask(["crc8spec %s" % hx(d), "crc16spec %s" % hx(d)])
        i8, i16 = "%02x" % int(CRC8(d).digest()), "%04x" % int(CRC16(d).digest())
        print("data=%s spec crc8=%s impl crc8=%s spec crc16=%s impl crc16=%s" % (hx(d), s8, i8, s16, i16))
        return 0 if (s8, s16) == (i8, i16) else 1
    print(rep)
    return 1
