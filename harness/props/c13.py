"""C13 - a finished request leaves nothing behind, however it finished.

Tie: as C11 (real request tasks vs the Lean `Host` model), with schedules biased to cancellation,
expiry, close and late / duplicate responses, and a follow-up request for the same command.
Observation checker: after every step the number of registered one-shot listeners never exceeds the
number of running requests and is zero once all have finished; no request returns `None`; which
request a response resolves is compared with the model (oldest pending waiter of that command).
"""
import hostdrive
import priv
from props.c11 import run_generic, replay  # noqa: F401

ASSUMPTIONS = ["events arrive at quiescent points of the event loop; timer ties avoided by construction"]


def cancel_points(ctx):
    """systematic: cancel / expire request 1 at every phase with another request in flight, then a late
    response and a follow-up request for the same command which must get its own response"""
    r = ctx.rng
    out = []
    prefixes = [
        [],                                                   # queued at the link / first write pending
        [("ack", 0.0)],                                       # after first ACK
        [("ack", 0.0), ("ack", 0.0)],
        [("ack", 0.0), ("ack", 0.0), ("ack", 0.0)],          # awaiting the response
    ]
    for kind in "GDWB":
        for other in ("", "G", "W", "B"):
            for pre in prefixes:
                for ender in ("cancel", "tick"):
                    s = []
                    if other:
                        s.append(("start", 0.0, other, 5000))
                    s.append(("start", 0.0, kind, 3000))
                    s += [(e, x, kind, 3000) for e, x in pre]
                    if ender == "cancel":
                        s.append(("cancel", 0.999 if other else 0.0, kind, 3000))
                    else:
                        s += [("tick", 0.0, kind, 3000)] * 2
                    s.append(("rsp", 0.999, kind, 3000))      # late response for the finished request
                    s.append(("start", 0.0, kind, 3000))      # follow-up request for the same command
                    s += [("ack", 0.0, kind, 3000)] * 4
                    s.append(("rsp", 0.999, kind, 3000))
                    out.append(s)
    # two requests for the same command in flight, both answered within one read
    for kind in "GZD":
        for n_ack in (2, 4):
            s = [("start", 0.0, kind, 3000), ("start", 0.0, kind, 5000)] + [("ack", 0.0, kind, 0)] * n_ack
            s += [("rsp2", 0.0, kind, 0), ("tick", 0.0, kind, 0), ("tick", 0.0, kind, 0)]
            out.append(s)
    return out


def unstarted(ctx):
    """Requests that end before they ever ran: a task cancelled before its first step, `wait_for(..., timeout=0)`, a
    coroutine object that is closed unawaited.  Nothing may stay registered, and a follow-up request for the same
    command gets its own response."""
    import asyncio
    import hostworld
    import streams
    K = hostworld.kinds()
    r = ctx.rng
    for kind in "GDZ":
        for how in ("cancel-before-first-step", "wait_for-0", "closed-unawaited"):
            w = hostworld.HostWorld()
            try:
                mk, Rsp, kw = K[kind]
                n0 = w.n_listeners()
                async def go():
                    # inside the running loop, like application code
                    if how == "cancel-before-first-step":
                        tk = asyncio.ensure_future(w.api.request(mk(1), timeout=3))
                        tk.cancel()
                        try:
                            await tk
                        except BaseException:
                            pass
                    elif how == "wait_for-0":
                        try:
                            await asyncio.wait_for(w.api.request(mk(1), timeout=3), timeout=0)
                        except (asyncio.TimeoutError, asyncio.CancelledError):
                            pass
                    else:
                        co = w.api.request(mk(1), timeout=3)
                        if hasattr(co, "close"):
                            co.close()
                        del co
                    await asyncio.sleep(0)
                w.loop.run_until_complete(go())
                w.loop.settle()
                n1 = w.n_listeners()
                # follow-up request for the same command, acknowledged and answered
                w.start(2, mk(2), 3.0)
                for _ in range(6):
                    w.rx(streams.ack(priv.pack_seq(w.p)))
                w.rx(hostworld.rsp_bytes(Rsp, 2, 1, **kw))
                res = [e for e in w.log if e.startswith("D2=")]
                ctx.case(("unstarted", kind, how), sample=dict(kind=kind, how=how, listeners_left=n1 - n0, follow_up=res))
                ctx.count("unstarted:" + how)
                if n1 != n0:
                    ctx.counterexample("listener-left-by-unstarted-request", dict(kind=kind, how=how), 0, n1 - n0,
                                       "a request that ended before its first step left a response waiter registered")
                elif res != ["D2=RET"]:
                    ctx.counterexample("follow-up-starved", dict(kind=kind, how=how), ["D2=RET"], res,
                                       "the follow-up request for the same command did not receive its own response")
            finally:
                w.shutdown()


def same_iteration(ctx):
    """An event that would let the request go on (the ACK of one of its fragments, its response) and the cancellation of
    the request land in the *same* iteration of the event loop: the event is processed, the request task has not been
    resumed yet, the caller cancels.  The request ends cancelled, leaves no waiter registered, and a follow-up request
    for the same command gets its own response.  (Not an event of the model, which takes events one at a time at
    quiescent points: observed on the implementation.)"""
    import hostworld
    import streams
    K = hostworld.kinds()
    for kind in "GDWZ":
        for acks_before in (0, 1, 2):
            for what in ("ack", "rsp"):
                w = hostworld.HostWorld()
                try:
                    mk, Rsp, kw = K[kind]
                    n0 = w.n_listeners()
                    w.start(1, mk(1), 6.0)
                    for _ in range(acks_before):
                        w.rx(streams.ack(priv.pack_seq(w.p)))
                    if w.tasks[1].done():
                        continue
                    # same iteration: feed the bytes, cancel, only then let the loop run
                    b = streams.ack(priv.pack_seq(w.p)) if what == "ack" else hostworld.rsp_bytes(Rsp, 1, 1, **kw)
                    w.p.data_received(bytes(b))
                    w.tasks[1].cancel()
                    w.loop.settle()
                    for _ in range(3):
                        if w.tasks[1].done():
                            break
                        w.tick()
                    first = [e for e in w.log if e.startswith("D1=")]
                    n1 = w.n_listeners()
                    # follow-up request for the same command, acknowledged and answered
                    w.start(2, mk(2), 3.0)
                    for _ in range(6):
                        w.rx(streams.ack(priv.pack_seq(w.p)))
                    w.rx(hostworld.rsp_bytes(Rsp, 2, 2, **kw))
                    second = [e for e in w.log if e.startswith("D2=")]
                    inp = dict(kind=kind, acknowledgements_before=acks_before, same_iteration_event=what)
                    ctx.case(("same-iteration", kind, acks_before, what), nontrivial=True,
                             sample=dict(inp, first=first, listeners_left=n1 - n0, follow_up=second))
                    ctx.count("same-iteration:" + what)
                    # a response that arrived in that iteration may legitimately complete the request first
                    ended = first in (["D1=CANCELLED"],) or (what == "rsp" and first == ["D1=RET"])
                    if not ended:
                        ctx.counterexample("cancelled-request-lives-on", inp, "the request ends (cancelled)", first or "still running",
                                           "a request cancelled in the iteration in which its acknowledgement / response was processed does not end")
                    elif n1 != n0:
                        ctx.counterexample("listener-left-by-cancelled-request", inp, 0, n1 - n0,
                                           "a request cancelled in the iteration in which its acknowledgement / response was processed left a waiter registered")
                    elif second != ["D2=RET"]:
                        ctx.counterexample("follow-up-starved", inp, ["D2=RET"], second,
                                           "the follow-up request for the same command did not receive its own response")
                finally:
                    w.shutdown()


def unframeable(ctx):
    """A request that can be constructed but not put into a frame (a payload that does not fit the 16-bit length field of
    the link header; a partial command): `request()` raises - and leaves no waiter behind; a follow-up request for the same
    command gets its own response."""
    import hostworld
    import streams
    import zigpy.types as zt
    import zigpy_zboss.types as t
    from zigpy_zboss import commands as c
    K = hostworld.kinds()
    ieee = t.EUI64.convert("00:11:22:33:44:55:66:77")

    def huge(n):
        return c.APS.DataReq.Req(TSN=1, ParamLength=21, DataLength=n, DstAddr=ieee, ProfileID=260, ClusterId=6, DstEndpoint=1,
                                 SrcEndpoint=1, Radius=0, DstAddrMode=zt.AddrMode.NWK, TxOptions=c.aps.TransmitOptions.NONE,
                                 UseAlias=0, AliasSrcAddr=0, AliasSeqNbr=0, Payload=t.Payload(bytes(n)))
    cases = [("payload-65520", "D", lambda: huge(65520)), ("payload-65535", "D", lambda: huge(65535)),
             ("partial-request", "G", lambda: c.NcpConfig.GetShortAddr.Req(partial=True))]
    for label, kind, mkreq in cases:
        w = hostworld.HostWorld()
        try:
            n0 = w.n_listeners()
            try:
                req = mkreq()
            except Exception:
                continue                      # not even constructible on this tree: nothing to test
            w.start(1, req, 3.0)
            for _ in range(3):
                if w.tasks[1].done():
                    break
                w.tick()
            first = [e for e in w.log if e.startswith("D1=")]
            n1 = w.n_listeners()
            mk, Rsp, kw = K[kind]
            w.start(2, mk(2), 3.0)
            for _ in range(6):
                w.rx(streams.ack(priv.pack_seq(w.p)))
            w.rx(hostworld.rsp_bytes(Rsp, 2, 1, **kw))
            second = [e for e in w.log if e.startswith("D2=")]
            inp = dict(request=label)
            ctx.case(("unframeable", label), nontrivial=True, sample=dict(inp, first=first, listeners_left=n1 - n0, follow_up=second))
            ctx.count("unframeable-request")
            if first and first[0] in ("D1=RET", "D1=RET-NONE"):
                continue                      # it could be framed after all
            if n1 != n0:
                ctx.counterexample("listener-left-by-failed-request", inp, 0, n1 - n0,
                                   "a request that failed before anything was sent left a response waiter registered")
            elif second != ["D2=RET"]:
                ctx.counterexample("follow-up-starved", inp, ["D2=RET"], second,
                                   "the follow-up request for the same command did not receive its own response")
        finally:
            w.shutdown()


def run(ctx):
    unstarted(ctx)
    same_iteration(ctx)
    unframeable(ctx)
    ctx.rule = ("(a) systematic: for 4 request kinds x 4 companions x 4 progress points x {cancel, expiry}: end the request, "
                "inject a late response, issue a follow-up request for the same command and answer it; (b) random schedules "
                "biased to cancel / expiry / close / duplicate responses; non-trivial = >= 2 requests and >= 4 event kinds")
    r = ctx.rng
    traces = []
    for s in cancel_points(ctx):
        tr = hostdrive.run_schedule(r, s)
        ctx.case(tuple(tr.tokens), nontrivial=True, sample=dict(events=tr.tokens[:14], steps=tr.steps[:14]))
        ctx.count("systematic")
        hostdrive.monitor_c13(ctx, tr)
        traces.append(tr)
    hostdrive.compare(ctx, traces)
    run_generic(ctx, hostdrive.monitor_c13, ctx.scale(250, 2500),
                weights=dict(start=4, ack=4, rsp=4, rsp2=1.5, tick=3, cancel=3, badack=0.5, close=0.3, lost=0.1))


def search(ctx):
    return None
