"""C13 - a finished request leaves nothing behind, however it finished.

Tie: as C11 (real request tasks vs the Lean `Host` model), with schedules biased to cancellation,
expiry, close and late / duplicate responses, and a follow-up request for the same command.
Observation checker: after every step the number of registered one-shot listeners never exceeds the
number of running requests and is zero once all have finished; no request returns `None`; which
request a response resolves is compared with the model (oldest pending waiter of that command).
"""
import hostdrive
from props.c11 import run_generic, replay  # noqa: F401

ASSUMPTIONS = ["events arrive at quiescent points of the event loop; timer ties avoided by construction"]


def cancel_points(ctx):
    """systematic: cancel / expire request 1 at every phase with another request in flight, then a late
    response and a follow-up request for the same command which must get its own response"""
    r = ctx.rng
    out = []
    prefixes = [
        [],                                                   # queued at the link / first write pending
        [("ack", 0.0)],                                       # after first ACK
        [("ack", 0.0), ("ack", 0.0)],
        [("ack", 0.0), ("ack", 0.0), ("ack", 0.0)],          # awaiting the response
    ]
    for kind in "GDWB":
        for other in ("", "G", "W", "B"):
            for pre in prefixes:
                for ender in ("cancel", "tick"):
                    s = []
                    if other:
                        s.append(("start", 0.0, other, 5000))
                    s.append(("start", 0.0, kind, 3000))
                    s += [(e, x, kind, 3000) for e, x in pre]
                    if ender == "cancel":
                        s.append(("cancel", 0.999 if other else 0.0, kind, 3000))
                    else:
                        s += [("tick", 0.0, kind, 3000)] * 2
                    s.append(("rsp", 0.999, kind, 3000))      # late response for the finished request
                    s.append(("start", 0.0, kind, 3000))      # follow-up request for the same command
                    s += [("ack", 0.0, kind, 3000)] * 4
                    s.append(("rsp", 0.999, kind, 3000))
                    out.append(s)
    # two requests for the same command in flight, both answered within one read
    for kind in "GZD":
        for n_ack in (2, 4):
            s = [("start", 0.0, kind, 3000), ("start", 0.0, kind, 5000)] + [("ack", 0.0, kind, 0)] * n_ack
            s += [("rsp2", 0.0, kind, 0), ("tick", 0.0, kind, 0), ("tick", 0.0, kind, 0)]
            out.append(s)
    return out


def run(ctx):
    ctx.rule = ("(a) systematic: for 4 request kinds x 4 companions x 4 progress points x {cancel, expiry}: end the request, "
                "inject a late response, issue a follow-up request for the same command and answer it; (b) random schedules "
                "biased to cancel / expiry / close / duplicate responses; non-trivial = >= 2 requests and >= 4 event kinds")
    r = ctx.rng
    traces = []
    for s in cancel_points(ctx):
        tr = hostdrive.run_schedule(r, s)
        ctx.case(tuple(tr.tokens), nontrivial=True, sample=dict(events=tr.tokens[:14], steps=tr.steps[:14]))
        ctx.count("systematic")
        hostdrive.monitor_c13(ctx, tr)
        traces.append(tr)
    hostdrive.compare(ctx, traces)
    run_generic(ctx, hostdrive.monitor_c13, ctx.scale(100, 2500),
                weights=dict(start=4, ack=4, rsp=4, rsp2=1.5, tick=3, cancel=3, badack=0.5, close=0.3, lost=0.1))


def search(ctx):
    return None
