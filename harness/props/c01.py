"""C01 - serial receive decoding is exact and independent of chunk boundaries.

Tie: the real `ZbossNcpProtocol.data_received` (recording transport + API stub)
vs the Lean model (`rx` op) on the same chunk lists, compared after every chunk
(writes and deliveries in order) and on the final link state.
Observation checker (on the implementation's output only):
  * chunk independence - every chunking delivers what the unchunked stream delivers;
  * exactness + promptness - after the first chunk `s[:c]` the deliveries are those of the
    greedy left-to-right parse of `s[:c]` (Lean spec `offline`), so a frame is delivered as
    soon as its last byte has arrived.
"""
import rxworld
import streams
from common import hx

ASSUMPTIONS = ["well-formed first-flagged frames carry at least the 4-byte command header (DESIGN.md 8.5)",
               "the upper-layer handler does not re-enter the protocol object"]


def deliveries(outs):
    d = []
    for o in outs:
        if o != ".":
            d += [x for x in o.split(",") if x.startswith("D")]
    return d


def offline_deliveries(ans):
    body = ans.rsplit(" rem=", 1)[0]
    if body == ".":
        return []
    return ["D" + x for x in body.split(",") if not x.endswith("hl=none")]


def expected_seq(offline_ans, seq):
    """pack_seq after the well-formed ACK frames of the stream (Lean whole-stream parse), from `seq`"""
    body = offline_ans.rsplit(" rem=", 1)[0]
    if body == ".":
        return seq
    for fr in body.split(","):
        flags = (int(fr.split(" ")[0][3:]) >> 40) & 0xFF
        if flags & 1 and (flags >> 4) & 3 == seq:
            seq = seq % 3 + 1
    return seq


def systematic_streams(ctx):
    """headers with arbitrary length fields (checksum-valid and not) in front of a valid frame"""
    r = ctx.rng
    out = []
    flagset = [0x00, 0x04, 0x40, 0x80, 0xC0, 0x01, 0x11] if not ctx.thorough() else \
        [0x00, 0x04, 0x08, 0x0C, 0x40, 0x44, 0x80, 0x8C, 0xC0, 0xC8, 0x01, 0x11, 0x21, 0x31, 0x03, 0xFF]
    for ln in list(range(13)) + [255, 300, 0xFFFF]:
        for fl in flagset:
            for good in (True, False):
                pad = bytes(r.getrandbits(8) for _ in range(r.choice([0, 1, 6])))
                out.append((["hdr-%s-len%d" % ("valid" if good else "badcrc", ln), "cmd"],
                            streams.header_only(ln, fl, good=good) + pad + streams.command_frame(r)))
    # a frame that is rejected only once it is complete (bad body checksum, too short for a command header, wrong flags
    # for its length), longer than the well-formed frame(s) behind it: whatever the receiver learnt from the rejected
    # frame's header must not be applied to the next one (byte-wise and single-cut chunkings make the header arrive early)
    for n in (20, 40, 120):
        for flags in (0xC0, 0x80, 0x00):
            bad = streams.raw_frame(flags | (r.randrange(4) << 2), bytes(r.getrandbits(8) for _ in range(n)), good_crc16=False)
            out.append((["bad-crc16-long", "cmd", "ack"], bad + streams.command_frame(r) + streams.ack(r.randrange(4))))
            out.append((["bad-crc16-long", "ack", "cmd"], bad + streams.ack(r.randrange(4)) + streams.command_frame(r)))
    # frames at the very top of the 16-bit length field (length + 2 no longer fits 16 bits), between two short ones
    for ln in ([0xFFFF, 0xFFFE] if not ctx.thorough() else [0xFFFF, 0xFFFE, 0xFFFD, 0x8000]):
        for fl in ([0x84] if not ctx.thorough() else [0x84, 0x08, 0xC4]):
            body = bytes(r.getrandbits(8) for _ in range(64)) * ((ln - 7) // 64) + bytes((ln - 7) % 64)
            out.append((["cmd", "huge-len%d" % ln, "cmd"],
                        streams.command_frame(r) + streams.raw_frame(fl, body) + streams.command_frame(r)))
    return out


def run_streams(ctx, nstreams, hostile=True, single_cuts=30, randoms=4, raise_handler=False, states=False,
                systematic=False):
    r = ctx.rng
    pre = systematic_streams(ctx) if systematic else []
    for si in range(len(pre) + nstreams):
        labels, s = pre[si] if si < len(pre) else streams.stream(r, hostile=hostile)
        if not s:
            continue
        seq, tr, ev = 0, True, False
        if states:
            seq, tr, ev = r.randrange(4), r.random() < 0.85, r.random() < 0.5
        whole_outs, whole_final, whole_raised = rxworld.session([s], seq, tr, ev)
        whole_d = deliveries(whole_outs)
        for lb in labels:
            ctx.count("elem:" + lb.split("-len")[0])
        ctx.count("stream-delivers=%s" % min(len(whole_d), 3))
        lines, metas = ["offline " + hx(s)], []
        big = len(s) > 20000
        for label, chunks in streams.chunkings(r, s, 5 if big else single_cuts, 1 if big else randoms):
            raise_at = ()
            if raise_handler and r.random() < 0.5:
                raise_at = tuple(sorted(set(r.randrange(0, 6) for _ in range(r.randrange(1, 4)))))
            outs, final, raised = rxworld.session(chunks, seq, tr, ev, raise_at)
            lines.append(rxworld.rx_line(chunks, seq, tr, ev))
            if label.startswith("cut@"):
                lines.append("offline " + hx(chunks[0]))
            metas.append((label, chunks, outs, final, raised, raise_at))
        ans = ctx.driver.ask(lines) if ctx.driver else None
        pos = 1
        want_seq = expected_seq(ans[0], seq) if ans else None
        if ans and offline_deliveries(ans[0]) != whole_d:
            ctx.counterexample("not-offline-parse", dict(stream=hx(s), elements=labels, chunking="whole", chunks=[hx(s)],
                                                         state=dict(pack_seq=seq, transport=tr, ack_event=ev), handler_raises_at=[]),
                               offline_deliveries(ans[0]), whole_d,
                               "the deliveries for the stream read at once are not the well-formed frames of the stream "
                               "(a frame is lost, invented, or withheld although its last byte has arrived)")
        for label, chunks, outs, final, raised, raise_at in metas:
            inp = dict(stream=hx(s), elements=labels, chunking=label, chunks=[hx(c) for c in chunks],
                       state=dict(pack_seq=seq, transport=tr, ack_event=ev), handler_raises_at=list(raise_at))
            nontrivial = len(labels) > 1 or labels[0] not in ("cmd", "ack")
            ctx.case((s, tuple(len(c) for c in chunks), seq, tr, ev, raise_at), nontrivial=nontrivial,
                     sample=dict(elements=labels, chunking=label, stream_len=len(s), log=outs[:4]))
            ctx.count("chunking:" + label.split("@")[0].split("-")[0])
            d = deliveries(outs)
            if raised:
                ctx.counterexample("rx-raised", inp, "no exception", raised, "data_received raised %s" % raised)
            if d != whole_d:
                ctx.counterexample("chunk-dependence", inp, whole_d, d,
                                   "deliveries depend on how the stream is split into reads")
            if ans is None:
                continue
            got_seq = final.split(" ")[0][4:]
            got_seq = int(got_seq) if got_seq != "?" else want_seq
            if got_seq != want_seq:
                ctx.counterexample("ack-acceptance", inp, "pack_seq=%d" % want_seq, "pack_seq=%d" % got_seq,
                                   "the transmit sequence number moved although the stream holds no well-formed "
                                   "acknowledgement for it (or did not move although it does)")
            m = ans[pos]
            pos += 1
            impl = " ".join(outs) + " | " + final
            if rxworld.mask_like(m, impl) != impl:
                ctx.mismatch("rx", inp, m, impl)
            if label.startswith("cut@"):
                off = offline_deliveries(ans[pos])
                pos += 1
                first = deliveries(outs[:1])
                if first != off:
                    ctx.counterexample("not-offline-parse", inp, off, first,
                                       "after the first read the deliveries are not the well-formed frames of the prefix "
                                       "(a frame is lost, invented, or withheld although its last byte has arrived)")


def run(ctx):
    ctx.rule = ("streams of 1..7 elements drawn from 20 kinds (command frames of all classes, ACKs, raw frames of every "
                "flag combination, host-made fragment trains, 8 noise kinds incl. DE-rich and embedded markers, "
                "checksum-valid headers with lengths 0..12/255/300, bad-crc headers announcing long bodies, bit flips, "
                "truncations, duplicates, bad CRC16, wrong type, short first frames, bodiless data frames, ACKs with a "
                "body, continuation frames) x chunkings (whole, byte-wise, single cuts preferring positions inside "
                "start markers, random k-way); non-trivial = more than one element or a hostile element; distinct by "
                "(stream, chunk sizes)")
    run_streams(ctx, ctx.scale(60, 1500), single_cuts=ctx.scale(12, 120), randoms=ctx.scale(2, 10), systematic=True)


def search(ctx):
    return None


def replay(ctx, rep):
    inp = rep.get("input") or {}
    print(rep.get("what"))
    if "chunks" not in inp:
        print(rep)
        return 1
    chunks = [bytes.fromhex(c) if c != "-" else b"" for c in inp["chunks"]]
    st = inp.get("state", {})
    outs, final, raised = rxworld.session(chunks, st.get("pack_seq", 0), st.get("transport", True), st.get("ack_event", False),
                                          tuple(inp.get("handler_raises_at", ())))
    s = b"".join(chunks)
    whole, _, _ = rxworld.session([s], st.get("pack_seq", 0), st.get("transport", True), st.get("ack_event", False))
    print("chunked  :", outs, final, raised)
    print("unchunked:", whole)
    if ctx.driver:
        print("model    :", ctx.driver.ask1(rxworld.rx_line(chunks, st.get("pack_seq", 0), st.get("transport", True), st.get("ack_event", False))))
        print("offline  :", ctx.driver.ask1("offline " + hx(s)))
    return 0 if (deliveries(outs) == deliveries(whole) and not raised) else 1
