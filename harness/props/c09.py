"""C09 - outgoing fragmentation partitions any message exactly, within the size limit.

Tie: real `Frame.handle_tx_fragmentation()` vs the Lean model (`frag` op) for
every body length 4 .. 4*247+10 (thorough: 8*247+10) with several content
patterns, plus real commands; the observation checker looks only at the real
fragments: concatenation, sizes, length fields, flags, and lets the Lean
reference decoder re-check each serialized fragment's length field and CRC16.
"""
from common import hx
import gen

ASSUMPTIONS = ["messages carry a non-zero command header (all 145 commands do: C19 table)",
               "total body length <= 65530"]


def _packet(hdr, data):
    from zigpy_zboss.frames import Frame, HLPacket, LLHeader
    import zigpy_zboss.types as t
    hl = HLPacket(t.HLCommonHeader(hdr), t.Bytes(data))
    ll = (LLHeader().with_signature(Frame.signature).with_size(hl.length + 5)
          .with_type(t.TYPE_ZBOSS_NCP_API_HL).with_flags(t.LLFlags.LastFrag | t.LLFlags.FirstFrag))
    return Frame(ll, hl)


def check_fragments(ctx, whole, frags, label, refans):
    """Observation checker on the implementation's output. refans: Lean refdecode answers per fragment."""
    body = whole.hl_packet.serialize()[2:]
    bodies = [f.hl_packet.serialize()[2:] for f in frags]
    inp = dict(case=label, body_len=len(body))

    def bad(sig, expected, observed, what):
        ctx.counterexample(sig, inp, expected, observed, what)
    if b"".join(bodies) != body:
        bad("frag-concat", "concatenation == message (%d bytes)" % len(body),
            "fragment body sizes %s" % [len(b) for b in bodies], "fragment bodies do not concatenate to the message")
    if any(len(b) == 0 or len(b) > 247 for b in bodies):
        bad("frag-size", "1..247", [len(b) for b in bodies], "a fragment body is empty or exceeds 247 bytes")
    if len(body) <= 247 and (len(frags) != 1 or int(frags[0].ll_header.flags) & 0xC0 != 0xC0):
        bad("frag-single", "one frame flagged first+last", [int(f.ll_header.flags) for f in frags],
            "a message that fits is not sent as one frame with both flags")
    if len(body) > 247:
        fl = [int(f.ll_header.flags) & 0xC0 for f in frags]
        want = [0x40] + [0] * (len(frags) - 2) + [0x80]
        if len(frags) < 2 or fl != want:
            bad("frag-flags", want, fl, "first/last flags are not exactly on the first/last fragment")
    for f, b, ra in zip(frags, bodies, refans or [None] * len(frags)):
        raw = f.serialize()
        if int(f.ll_header.size) != len(raw) - 2:
            bad("frag-length-field", len(raw) - 2, int(f.ll_header.size), "length field does not match the fragment's actual size")
        if ra is not None:
            want = "ok len=%d flags=%d body=%s rest=-" % (len(raw) - 2, int(f.ll_header.flags), hx(b))
            if ra != want:
                bad("frag-not-wellformed", want[:60], ra[:60], "reference decoder rejects / mis-reads a fragment (length field or CRC16)")


def run(ctx):
    from zigpy_zboss.checksum import CRC8
    r = ctx.rng
    top = ctx.scale(4 * 247 + 10, 8 * 247 + 10)
    patterns = ctx.scale(2, 6)
    ctx.rule = ("every body length 4..%d x %d content patterns (zeros / random / ramp ...) through HLPacket+Frame as "
                "to_frame builds them, plus WriteNVRAM/DataReq commands of random sizes; non-trivial = needs >= 2 "
                "fragments or sits on a boundary (len <= 8 or len %% 247 in 0..4); distinct by (length, content)" % (top, patterns))
    ctx.exhaustive = True
    cases = []
    for n in range(4, top + 1):
        for k in range(patterns):
            if k == 0:
                data = bytes(n - 4)
            elif k == 1:
                data = bytes(r.getrandbits(8) for _ in range(n - 4))
            elif k == 2:
                data = bytes((i * 7 + 3) & 0xFF for i in range(n - 4))
            else:
                data = bytes(r.choice([0xDE, 0xAD, 0xFF, r.getrandbits(8)]) for _ in range(n - 4))
            hdr = r.choice([0x00020000, 0x02810100, r.getrandbits(32) | 0x10000])
            cases.append(("len=%d/p%d" % (n, k), _packet(hdr, data)))
    for _ in range(ctx.scale(20, 400)):
        n = r.randrange(0, 1600)
        cases.append(("WriteNVRAM/%d" % n, gen.big_request(r, n).to_frame()))
    lines = []
    metas = []
    for label, whole in cases:
        frags = whole.handle_tx_fragmentation()
        if len(metas) % 7 == 0:
            # fragmenting does not consume or alter the message: a second run gives the same fragments
            again = whole.handle_tx_fragmentation()
            a1 = [f.hl_packet.serialize() for f in frags]
            a2 = [f.hl_packet.serialize() for f in again]
            if a1 != a2 or [int(f.ll_header) for f in frags] != [int(f.ll_header) for f in again]:
                ctx.counterexample("fragmenting-twice-differs", dict(case=label), [hx(x)[:24] for x in a1], [hx(x)[:24] for x in a2],
                                   "fragmenting the same message a second time gives different fragments")
        hdr = whole.hl_packet.header
        data = bytes(whole.hl_packet.data)
        lines.append("frag %d %s" % (int(hdr), hx(data)))
        start = len(lines)
        for f in frags:
            # checksum the header the way the transmitter would, so that the reference decoder can read it
            ll = f.ll_header.with_crc8(CRC8(f.ll_header.serialize()[2:6]).digest())
            lines.append("refdecode %s" % hx(ll.serialize() + f.hl_packet.serialize()))
        metas.append((label, whole, frags, start))
    # one Frame object used for several messages in turn (both of its fields assigned anew, as `to_frame` sets them, the
    # object asked about its fragmentation in between): each message must still go out as itself
    from zigpy_zboss.frames import HLPacket
    import zigpy_zboss.types as t
    for j in range(ctx.scale(12, 60)):
        sizes = [r.choice([100, 247, 248, 251, 300, 496, 500, 600, 741, 745, 1000, r.randrange(4, 1500)]) for _ in range(r.randrange(3, 7))]
        reused = _packet(0x00020000, bytes(sizes[0] - 4))
        for step, n in enumerate(sizes):
            if step:
                hl = HLPacket(t.HLCommonHeader(r.choice([0x00020000, 0x02810100])), t.Bytes(bytes(r.getrandbits(8) for _ in range(n - 4))))
                if r.random() < 0.7:
                    reused.fragmentation_needed, reused.count_fragments()
                reused.hl_packet = hl
                reused.ll_header = reused.ll_header.with_size(hl.length + 5)
            frags = reused.handle_tx_fragmentation()
            fresh = _packet(int(reused.hl_packet.header), bytes(reused.hl_packet.data)).handle_tx_fragmentation()
            label = "reused-frame/%d/%s" % (j, "+".join(map(str, sizes[:step + 1])))
            ctx.case(("reuse", j, step), sample=dict(case=label))
            ctx.count("reused-frame-object")
            check_fragments(ctx, reused, frags, label, None)
            a1 = [(int(f.ll_header), f.hl_packet.serialize()) for f in frags]
            a2 = [(int(f.ll_header), f.hl_packet.serialize()) for f in fresh]
            if a1 != a2:
                ctx.counterexample("reused-frame-differs", dict(case=label, body_len=n, sizes=sizes[:step + 1]), [len(x[1]) - 2 for x in a2], [len(x[1]) - 2 for x in a1],
                                   "a Frame object given a new message fragments differently from a fresh frame with that message")
    ans = ctx.driver.ask(lines) if ctx.driver else None
    pos = 0
    for label, whole, frags, start in metas:
        body_len = len(whole.hl_packet.serialize()) - 2
        nontriv = len(frags) > 1 or body_len <= 8 or body_len % 247 <= 4
        ctx.case((body_len, bytes(whole.hl_packet.data)), nontrivial=nontriv,
                 sample=dict(case=label, body_len=body_len, fragment_sizes=[int(f.ll_header.size) - 7 for f in frags]))
        ctx.count("fragments=%d" % len(frags))
        ctx.count("residue=%s" % (body_len % 247 if body_len % 247 <= 4 else "other"))
        refans = ans[start:start + len(frags)] if ans else None
        check_fragments(ctx, whole, frags, label, refans)
        if ans:
            impl = " ".join("%d:%d:%s" % (int(f.ll_header.size), int(f.ll_header.flags), hx(f.serialize())) for f in frags)
            if ans[start - 1] != impl:
                ctx.mismatch("frag", dict(case=label, hdr=int(whole.hl_packet.header), data_len=len(whole.hl_packet.data)),
                             ans[start - 1][:200], impl[:200])


def search(ctx):
    return None


def replay(ctx, rep):
    print(rep.get("what")); print("input:", rep.get("input")); print("expected:", rep.get("expected"))
    inp = rep.get("input") or {}
    n = inp.get("body_len")
    if n:
        whole = _packet(0x00020000, bytes(n - 4))
        frags = whole.handle_tx_fragmentation()
        sizes = [len(f.hl_packet.serialize()) - 2 for f in frags]
        print("now: fragment body sizes", sizes, "sum", sum(sizes), "flags", [int(f.ll_header.flags) for f in frags])
        ok = b"".join(f.hl_packet.serialize()[2:] for f in frags) == whole.hl_packet.serialize()[2:]
        return 0 if ok else 1
    return 1
