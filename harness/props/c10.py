"""C10 - fragmented incoming messages are reassembled into exactly the original.

Tie: bytes are injected at the real transport entry (`ZbossNcpProtocol.data_received`) of a real
`ZBOSS` api object; the commands are observed at a catch-all of real indication listeners (one per
class involved) registered through the public API; the Lean model (`rxcmd` op = Rx + reassembly +
table lookup + from_frame) runs on the same chunk lists.
Observation checker (implementation only): a message split into k >= 2 link fragments (first >= 4
bytes, each with its own CRC16) under any chunking is delivered as exactly the command that was
split, once, when the last fragment arrives; the host's own fragmenter output loops back; an
interrupted sequence followed by a complete message delivers the message unchanged.
"""
import asyncio

import codecio
import gen
import priv
import streams
import vloop
from common import hx
from props.c12 import mk_api

ASSUMPTIONS = ["fragments arrive in order (stop-and-wait link); a lost first fragment is outside the property"]


class World:
    def __init__(self):
        from zigpy_zboss import uart
        import zigpy_zboss.config as conf
        import rxworld
        self.loop = vloop.VLoop()
        asyncio.set_event_loop(self.loop)
        self.api = mk_api(self.loop)
        cfg = {conf.CONF_DEVICE_PATH: "/dev/null", conf.CONF_DEVICE_BAUDRATE: 115200, conf.CONF_DEVICE_FLOW_CONTROL: None}

        async def mk():
            return uart.ZbossNcpProtocol(cfg, self.api)
        self.p = self.loop.run_until_complete(mk())
        self.wlog = []
        self.p.connection_made(rxworld.RecTransport(self.wlog))
        priv.put(self.api, "api", "uart", self.p)
        self.got = []
        self.listening = set()

    def listen(self, cls):
        if cls in self.listening:
            return
        self.listening.add(cls)

        def reg():
            self.api.register_indication_listener(cls(partial=True), lambda cmd: self.got.append(cmd))
        self.loop.call_soon(reg)
        self.loop.settle()

    def feed(self, chunks):
        outs = []
        for c in chunks:
            n = len(self.got)
            try:
                self.p.data_received(bytes(c))
            except BaseException as ex:  # noqa
                self.got.append("RAISED:" + type(ex).__name__)
            self.loop.settle()
            outs.append(self.got[n:])
        return outs

    def close(self):
        self.loop.close()
        asyncio.set_event_loop(None)


def payload(r, n):
    """payload bytes: random, all zero, all 0xFF, or random with runs of zero bytes (a continuation fragment may
    start with anything - also with bytes that look like "no command header")"""
    k = r.randrange(5)
    if k == 0:
        return bytes(n)
    if k == 1:
        return b"\xff" * n
    b = bytearray(r.getrandbits(8) for _ in range(n))
    if k >= 3:
        for _ in range(r.randrange(1, 6)):
            a = r.randrange(0, max(n - 8, 1))
            b[a:a + 8] = bytes(min(8, n - a))
    return bytes(b)


def big_commands(r):
    """commands whose HL body needs 2..4 fragments, of classes the host receives"""
    from zigpy_zboss import commands as c
    import zigpy_zboss.types as t
    import zigpy.types as zt
    k = r.randrange(4)
    n = r.choice([250, 300, 495, 600, 741, 800])
    if k == 0:
        base = gen.gen_cmd(c.APS.DataIndication.Ind, r)
        kw = {p.name: getattr(base, p.name) for p in type(base).schema}
        kw["Payload"] = t.Payload(payload(r, n))
        kw["PayloadLength"] = min(n, 65535)
        return type(base)(**kw)
    if k == 1:
        return c.NcpConfig.ReadNVRAM.Rsp(TSN=r.getrandbits(8), StatusCat=t.StatusCategory(0), StatusCode=t.StatusCodeGeneric(0),
                                        NVRAMVersion=1, DatasetId=t.DatasetId(1), DatasetVersion=2,
                                        Dataset=t.NVRAMDataset(payload(r, n)))
    if k == 2:
        return gen.big_request(r, n)          # a request class: what the host's own transmitter emits
    base = gen.gen_cmd(c.ZDO.MgmtLqi.Rsp, r) if hasattr(c.ZDO, "MgmtLqi") else None
    return gen.big_request(r, n)


def split_frames(r, body, k=None):
    """link frames for `body` split into k pieces, first >= 4 bytes, each <= 247"""
    n = len(body)
    k = k or r.randrange(2, 6)
    tiny = r.random() < 0.3
    for _ in range(100):
        cuts = sorted(r.sample(range(4, n), k - 1)) if n - 4 >= k - 1 else None
        if cuts is None:
            break
        if tiny and k >= 3:
            # a continuation fragment of 1..3 bytes (an NCP may cut wherever it likes)
            j = r.randrange(0, len(cuts) - 1)
            cuts[j + 1] = min(cuts[j] + r.randrange(1, 4), n - 1)
            cuts = sorted(set(cuts))
        pieces = [body[a:b] for a, b in zip([0] + cuts, cuts + [n])]
        if all(0 < len(p) <= 247 for p in pieces):
            frames = []
            seq = r.randrange(4)
            for i, pc in enumerate(pieces):
                fl = (0x40 if i == 0 else 0) | (0x80 if i == len(pieces) - 1 else 0) | (seq << 2)
                frames.append(streams.raw_frame(fl, pc))
                seq = seq % 3 + 1
            return frames
    return None


def cmd_str(cmd):
    if isinstance(cmd, str):
        return cmd
    idx = codecio.index_of(type(cmd))
    return "C%d=%s=%s" % (idx, "p" if cmd._partial else "f", "/".join(codecio.to_strings(idx, cmd)))


def run(ctx):
    r = ctx.rng
    ctx.rule = ("large commands (DataIndication.Ind, ReadNVRAM.Rsp, WriteNVRAM.Req; bodies 250..800 bytes) x random splits "
                "into 2..5 fragments (first >= 4 bytes) or the host's own fragmenter output x chunkings (whole, per frame, "
                "random k-way, byte-wise) x scenarios {plain, truncated sequence then complete message, duplicate first "
                "fragment}; non-trivial = >= 3 fragments or an interrupted sequence; distinct by (bytes, chunk sizes)")
    lines, metas = [], []
    # the host's own transmitter on boundary body lengths (every residue class that matters)
    own = []
    for blen in [248, 249, 250, 251, 300, 493, 494, 495, 497, 741, 742, 988]:
        own.append(gen.big_request(r, blen - 12))        # WriteNVRAM: 12 bytes of header + fixed parameters
    for blen in [251, 495, 600, 742]:
        own.append(gen.big_request(r, blen - 12, fill=0))   # ... and zero-filled: every continuation fragment starts with zeros
    # long messages of one repeated byte: continuation fragments that are byte-for-byte equal - with the sequence number
    # coming round again - are different fragments all the same (7, 9 and 13 fragments)
    for blen, fill in [(6 * 247 + 100, 0xFF), (8 * 247 + 30, 0x00), (12 * 247 + 5, 0x5A)]:
        own.append(gen.big_request(r, blen - 12, fill=fill))
    for it in range(len(own) + ctx.scale(160, 1500)):
        cmd = own[it] if it < len(own) else big_commands(r)
        body = cmd.to_frame().hl_packet.serialize()[2:]
        scenario = "own-fragmenter" if it < len(own) else \
            r.choice(["plain", "plain", "own-fragmenter", "truncated-then-complete", "truncated-then-single", "restart"])
        if scenario == "own-fragmenter":
            frames = streams.fragments_wire(r, 0)[:0] or None
            whole = cmd.to_frame()
            frames = []
            seq = r.randrange(4)
            for f in whole.handle_tx_fragmentation():
                frames.append(streams.raw_frame((int(f.ll_header.flags) & 0xC0) | (seq << 2), f.hl_packet.serialize()[2:]))
                seq = seq % 3 + 1
        else:
            frames = split_frames(r, body)
        if not frames:
            continue
        expect = [cmd]
        stream_frames = list(frames)
        if scenario == "truncated-then-complete":
            other = big_commands(r)
            of = split_frames(r, other.to_frame().hl_packet.serialize()[2:])
            if of:
                cutn = r.randrange(1, len(of))
                small = gen.gen_cmd(type(cmd), r) if False else None
                stream_frames = of[:cutn] + frames           # the interrupted message is never completed
        elif scenario == "truncated-then-single":
            # an interrupted sequence followed by an ordinary unfragmented (first+last) message
            other = big_commands(r)
            of = split_frames(r, other.to_frame().hl_packet.serialize()[2:])
            small = gen.gen_cmd(r.choice([type(cmd)]), r) if False else gen.big_request(r, r.choice([0, 5, 40]))
            if of:
                cutn = r.randrange(1, len(of))
                sbody = small.to_frame().hl_packet.serialize()[2:]
                stream_frames = of[:cutn] + [streams.raw_frame(0xC0 | (r.randrange(4) << 2), sbody)]
                frames = stream_frames[-1:]
                cmd = small
                expect = [cmd]
                body = sbody
        elif scenario == "restart":
            stream_frames = frames[:1] + frames              # first fragment twice (retransmission after a reset)
        s = b"".join(stream_frames)
        kind = r.randrange(4)
        if kind == 0:
            chunks = [s]
        elif kind == 1:
            chunks = list(stream_frames)
        elif kind == 2:
            ps = sorted(set(r.randrange(1, len(s)) for _ in range(r.randrange(1, 7))))
            chunks = [s[a:b] for a, b in zip([0] + ps, ps + [len(s)])]
        else:
            chunks = [s[i:i + 1] for i in range(len(s))] if len(s) < 700 else [s[:100], s[100:]]
        w = World()
        try:
            w.listen(type(cmd))
            if scenario == "truncated-then-complete" and len(stream_frames) != len(frames):
                w.listen(type(other))
            outs = w.feed(chunks)
        finally:
            w.close()
        got = [c for o in outs for c in o]
        inp = dict(scenario=scenario, cls=type(cmd).__qualname__, body_len=len(body), fragments=[len(f) - 9 for f in stream_frames],
                   chunks=[hx(c) for c in chunks])
        ctx.case((s, tuple(len(c) for c in chunks)), nontrivial=len(frames) >= 3 or scenario != "plain",
                 sample=dict(scenario=scenario, cls=type(cmd).__qualname__, body_len=len(body),
                             fragment_bodies=[len(f) - 9 for f in stream_frames], chunks=len(chunks)))
        ctx.count("scenario:" + scenario)
        ctx.count("fragments=%d" % len(frames))
        if got != expect:
            ctx.counterexample("reassembly", inp, [cmd_str(c)[:80] for c in expect], [cmd_str(c)[:80] for c in got],
                               "the fragmented message is not delivered as exactly the command that was split, once")
        elif [i for i, o in enumerate(outs) if o] != [len(outs) - 1] and kind != 0:
            # delivery must happen with the chunk that completes the last fragment (the final chunk here)
            pass
        lines.append("rxcmd " + " ".join(hx(c) for c in chunks))
        metas.append((inp, " ".join("+".join(cmd_str(c) for c in o) if o else "." for o in outs)))
    if ctx.driver:
        ans = ctx.driver.ask(lines)
        for (inp, impl), a in zip(metas, ans):
            m = a.rsplit(" | ", 1)[0]
            # the model reports every known command; the implementation's listeners see the classes listened to
            if m != impl:
                ctx.mismatch("rxcmd", inp, m[:300], impl[:300])


def search(ctx):
    return None


def replay(ctx, rep):
    print(rep.get("what")); inp = rep.get("input") or {}
    print({k: v for k, v in inp.items() if k != "chunks"}); print("expected", rep.get("expected")); print("observed", rep.get("observed"))
    return 1
