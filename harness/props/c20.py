"""C20 - closing or losing the link never strands a caller and is reported once.

Tie: as C11, with `close()` / connection loss injected at every quiescent point of scenarios with
1..3 requests in different phases, with and without a reset in progress, followed by a second close.
Observation checker (virtual clock): every request in flight or queued at `close()` has ended once
the clock has advanced by the acknowledgement wait; new requests are refused in the same step;
closing again is harmless; a loss is reported exactly once - not at all during a reset - and every
request ends by its timeout.
"""
import hostdrive
from props.c11 import run_generic, replay  # noqa: F401

ASSUMPTIONS = ["events arrive at quiescent points of the event loop; timer ties avoided by construction",
               "the reset-in-progress flag is the `_reset_uart_reconnect` lock held by another task"]


def scenarios(ctx):
    r = ctx.rng
    out = []
    bases = [
        [("start", 0.0, "G", 3000)],
        [("start", 0.0, "W", 3000), ("ack", 0.0, "W", 0)],
        [("start", 0.0, "B", 3000), ("start", 0.0, "G", 5000)],
        [("start", 0.0, "D", 3000), ("start", 0.0, "W", 5000), ("start", 0.0, "Z", 7000), ("ack", 0.0, "D", 0)],
        [("start", 0.0, "G", 3000), ("ack", 0.0, "G", 0)],
        [("start", 0.0, "W", 3000), ("ack", 0.0, "W", 0), ("ack", 0.0, "W", 0), ("ack", 0.0, "W", 0), ("start", 0.0, "B", 5000)],
    ]
    for base in bases:
        for cutat in range(1, len(base) + 1):
            for what in ("close", "lost"):
                for reset in (False, True):
                    s = list(base[:cutat])
                    if reset:
                        s.append(("reset", 0.0, "G", 0))
                    s.append((what, 0.0, "G", 0))
                    s.append(("start", 0.0, "P", 3000))         # a new request afterwards
                    s.append(("close", 0.0, "G", 0))             # close (again)
                    if reset:
                        s.append(("reset", 0.0, "G", 0))
                    s.append(("close", 0.0, "G", 0))
                    out.append(s)
    return out


def run(ctx):
    ctx.rule = ("(a) systematic: 6 base scenarios (1..3 requests: queued, awaiting transmit slot, awaiting ACK, awaiting "
                "response) x every quiescent point x {close, loss} x {reset in progress or not}, then a new request and "
                "repeated close; (b) random schedules with frequent close / loss / reset; non-trivial = all")
    r = ctx.rng
    traces = []
    for s in scenarios(ctx):
        tr = hostdrive.run_schedule(r, s)
        ctx.case(tuple(tr.tokens), nontrivial=True, sample=dict(events=tr.tokens[:14], steps=tr.steps[:14], times=tr.times[:14]))
        ctx.count("systematic")
        hostdrive.monitor_c20(ctx, tr)
        traces.append(tr)
    hostdrive.compare(ctx, traces)
    run_generic(ctx, hostdrive.monitor_c20, ctx.scale(100, 2500), allow_reset=True,
                weights=dict(start=5, ack=4, rsp=2, tick=2, cancel=0.5, badack=0.5, close=1.2, lost=0.8, reset=0.4))


def search(ctx):
    return None
