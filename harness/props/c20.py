"""C20 - closing or losing the link never strands a caller and is reported once.

Tie: as C11, with `close()` / connection loss injected at every quiescent point of scenarios with
1..3 requests in different phases, with and without a reset in progress, followed by a second close.
Observation checker (virtual clock): every request in flight or queued at `close()` has ended once
the clock has advanced by the acknowledgement wait; new requests are refused in the same step;
closing again is harmless; a loss is reported exactly once - not at all during a reset - and every
request ends by its timeout.
"""
import priv
import hostdrive
from props.c11 import run_generic, replay  # noqa: F401

ASSUMPTIONS = ["events arrive at quiescent points of the event loop; timer ties avoided by construction",
               "the reset-in-progress flag is the `_reset_uart_reconnect` lock held by another task"]


def scenarios(ctx):
    r = ctx.rng
    out = []
    bases = [
        [("start", 0.0, "G", 3000)],
        [("start", 0.0, "W", 3000), ("ack", 0.0, "W", 0)],
        [("start", 0.0, "B", 3000), ("start", 0.0, "G", 5000)],
        [("start", 0.0, "D", 3000), ("start", 0.0, "W", 5000), ("start", 0.0, "Z", 7000), ("ack", 0.0, "D", 0)],
        [("start", 0.0, "G", 3000), ("ack", 0.0, "G", 0)],
        [("start", 0.0, "W", 3000), ("ack", 0.0, "W", 0), ("ack", 0.0, "W", 0), ("ack", 0.0, "W", 0), ("start", 0.0, "B", 5000)],
        # two / three requests for the SAME command await their responses; a younger one ends first (cancelled); close()
        # must still reach the older ones
        [("start", 0.0, "Z", 7000), ("ack", 0.0, "Z", 0), ("start", 0.0, "Z", 9000), ("ack", 0.0, "Z", 0), ("cancel", 0.999, "Z", 0)],
        [("start", 0.0, "Z", 7000), ("ack", 0.0, "Z", 0), ("start", 0.0, "Z", 8000), ("ack", 0.0, "Z", 0), ("start", 0.0, "Z", 9000),
         ("ack", 0.0, "Z", 0), ("cancel", 0.5, "Z", 0)],
        [("start", 0.0, "P", 7000), ("ack", 0.0, "P", 0), ("start", 0.0, "P", 3000), ("cancel", 0.999, "P", 0)],
    ]
    for base in bases:
        for cutat in range(1, len(base) + 1):
            for what in ("close", "lost"):
                for reset in (False, True):
                    s = list(base[:cutat])
                    if reset:
                        s.append(("reset", 0.0, "G", 0))
                    s.append((what, 0.0, "G", 0))
                    s.append(("start", 0.0, "P", 3000))         # a new request afterwards
                    s.append(("close", 0.0, "G", 0))             # close (again)
                    if reset:
                        s.append(("reset", 0.0, "G", 0))
                    s.append(("close", 0.0, "G", 0))
                    out.append(s)
    return out


def reset_scenarios(ctx):
    """The real `ZBOSS.reset()` with the link lost at every point of it (implementation-side observation):
    the application is not told while the reset is in progress, exactly once afterwards."""
    import hostworld
    import streams
    K = hostworld.kinds()
    for nreq in (0, 1, 2):
        for point in ("before-ack", "after-ack", "after-ack-timeout", "none-then-after"):
            for close_too in (False, True):
                w = hostworld.HostWorld()
                try:
                    for i in range(1, nreq + 1):
                        mk, Rsp, kw = K["PZ"[i - 1]]
                        w.start(i, mk(i), 3.0 + i)
                        w.rx(streams.ack(priv.pack_seq(w.p)))
                    w.start_reset()
                    during = []            # (what, number of reports) while reset() is running
                    if point == "before-ack":
                        m = w.mark(); w.lost(); during.append(("loss before the reset frame is acknowledged", w.log[m:].count("APPLOST")))
                    else:
                        if point == "after-ack-timeout":
                            w.tick()       # the acknowledgement wait of the reset frame expires
                        else:
                            w.rx(streams.ack(priv.pack_seq(w.p)))
                        if point != "none-then-after":
                            m = w.mark(); w.lost(); during.append(("loss while reset() awaits the disconnect", w.log[m:].count("APPLOST")))
                    if close_too and not w.reset_task.done():
                        m = w.mark(); w.close(); during.append(("close() during the reset", w.log[m:].count("APPLOST")))
                    for _ in range(40):
                        if w.reset_task.done():
                            break
                        m = w.mark()
                        if not w.tick():
                            break
                        during.append(("timer during the reset", w.log[m:].count("APPLOST")))
                    reset_done = w.reset_task.done()
                    after = None
                    if reset_done and priv.get(w.api, "api", "uart") is not None and priv.get(w.api, "api", "app") is not None:
                        m = w.mark(); w.lost(); after = w.log[m:].count("APPLOST")
                    for _ in range(40):
                        if not any(not tk.done() for tk in w.tasks.values()) or not w.tick():
                            break
                    stranded = [i for i, tk in w.tasks.items() if not tk.done()]
                    inp = dict(requests_in_flight=nreq, loss_point=point, close_during_reset=close_too)
                    ctx.case(("reset", nreq, point, close_too), nontrivial=True,
                             sample=dict(inp, reports_during=[n for _, n in during], report_after=after, log=[e[:24] for e in w.log[-8:]]))
                    ctx.count("real-reset:" + point)
                    for what, n in during:
                        if n:
                            ctx.counterexample("loss-reported-during-reset", dict(inp, at=what), 0, n,
                                               "the application is told about a connection loss while a deliberate NCP reset is in progress")
                            break
                    if not reset_done:
                        ctx.counterexample("reset-never-ends", inp, "reset() returns", w.log[-6:], "reset() does not terminate")
                    if after is not None and after != 1:
                        ctx.counterexample("loss-report", dict(inp, at="loss after the reset has finished"), 1, after,
                                           "connection loss after a finished reset is not reported exactly once")
                    if stranded:
                        ctx.counterexample("never-terminates", inp, "all requests end by their timeout", stranded, "a request never terminates")
                finally:
                    w.shutdown()


def run(ctx):
    ctx.rule = ("(a) systematic: 6 base scenarios (1..3 requests: queued, awaiting transmit slot, awaiting ACK, awaiting "
                "response) x every quiescent point x {close, loss} x {reset in progress or not}, then a new request and "
                "repeated close; (a') the real ZBOSS.reset() x 0..2 requests in flight x loss before / after the ACK of the reset "
                "frame / after its ACK wait expired / after the reset finished x close() during the reset; (b) random schedules with frequent close / loss / reset; non-trivial = all")
    r = ctx.rng
    traces = []
    for s in scenarios(ctx):
        tr = hostdrive.run_schedule(r, s)
        ctx.case(tuple(tr.tokens), nontrivial=True, sample=dict(events=tr.tokens[:14], steps=tr.steps[:14], times=tr.times[:14]))
        ctx.count("systematic")
        hostdrive.monitor_c20(ctx, tr)
        traces.append(tr)
    hostdrive.compare(ctx, traces)
    reset_scenarios(ctx)
    run_generic(ctx, hostdrive.monitor_c20, ctx.scale(250, 2500), allow_reset=True,
                weights=dict(start=5, ack=4, rsp=2, tick=2, cancel=0.5, badack=0.5, close=1.2, lost=0.8, reset=0.4))


def search(ctx):
    return None
