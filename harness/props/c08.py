"""C08 (and shared by C07) - link transmit side on a virtual-time loop.

Tie: real `ZbossNcpProtocol.send` tasks + `data_received` + `close` under a virtual clock, events
injected at quiescent points, vs the Lean `Link` model (`link` op): per event the ordered wire
writes / hand-ups and the set of sender completions, and the final sequence number.
Observation checker for C08 (on the implementation only): the sequence number stamped on each
written data frame follows 0 until the first matching ACK, then n -> n % 3 + 1, changes exactly on
`ACK(current)`, is reset by close; every stamped header has a valid CRC8 and flags = original | seq<<2.
"""
import priv
import streams
import vloop
from common import hx
import gen

ASSUMPTIONS = ["events arrive at quiescent points of the event loop (no callback runnable); intra-iteration "
               "interleavings and timer ties are outside the model"]


def make_frame(r, i):
    """a small frame whose payload identifies the sender"""
    from zigpy_zboss.frames import Frame, HLPacket, LLHeader
    import zigpy_zboss.types as t
    kind = r.randrange(3)
    data = bytes([i, i ^ 0xFF]) + bytes(r.getrandbits(8) for _ in range(r.choice([0, 3, 20])))
    hdr = 0x00020000 + (i << 16)
    fl = [0xC0, 0x40, 0x80][kind]
    hl = HLPacket(t.HLCommonHeader(hdr), t.Bytes(data))
    ll = (LLHeader().with_signature(Frame.signature).with_size(hl.length + 5)
          .with_type(t.TYPE_ZBOSS_NCP_API_HL).with_flags(t.LLFlags(fl)))
    return Frame(ll, hl), "S:%d:%d:%d:%s" % (i, fl, hdr, hx(data)), fl


def gen_history(r, depth, kinds):
    """event list (model syntax, python action)"""
    evs = []
    nsend = 0
    for _ in range(depth):
        k = r.choice(kinds)
        if k == "send":
            nsend += 1
            evs.append(("send", nsend))
        elif k == "ack":
            evs.append(("ack", None))           # matching ACK, resolved at run time
        elif k == "acks":
            evs.append(("acks", r.randrange(4)))    # several acknowledgements (and data frames) in ONE read
        elif k.startswith("ack"):
            evs.append(("ackn", int(k[3:])))
        elif k == "data":
            evs.append(("data", r.randrange(4)))
        elif k == "cancel":
            evs.append(("cancel", r.randrange(1, max(nsend, 1) + 1)))
        else:
            evs.append((k, None))
    return evs


def run_history(ctx, r, evs):
    """Run on the implementation; return (model event strings, per-step canonical logs, observations)."""
    w = vloop.LinkWorld()
    tokens, steps = [], []
    sent_flags = {}
    obs = []          # (event label, seq before, seq after, written frames [(sender, raw)])
    run_history.times = []   # virtual time (s) after each event, parallel to `obs`
    try:
        for kind, arg in evs:
            if r.random() < 0.35:
                w.loop.nudge(r.choice([0.2, 0.5, 0.8]))      # virtual time passes between events (no timer fires)
            m = w.mark()
            before = priv.pack_seq(w.p, None)
            if kind == "send":
                f, tok, fl = make_frame(r, arg)
                sent_flags[arg] = fl
                tokens.append(tok)
                w.start_send(arg, f)
                label = "send"
            elif kind in ("ack", "ackn"):
                k = priv.pack_seq(w.p) if kind == "ack" else arg
                b = streams.ack(k)
                tokens.append("R:" + hx(b))
                w.rx(b)
                label = "ACK(current)" if k == before else "ACK(other)"
            elif kind == "acks":
                # one read: ACK(current), possibly a data frame, ACK(next), possibly ACK(next-but-one) / a stale one
                cur = priv.pack_seq(w.p)
                nxt = cur % 3 + 1
                parts, acked = [streams.ack(cur)], [cur]
                if arg & 1:
                    parts.append(streams.command_frame(r, r.randrange(4)))
                parts.append(streams.ack(nxt)); acked.append(nxt)
                if arg & 2:
                    third = r.choice([nxt % 3 + 1, cur, 0])
                    parts.append(streams.ack(third)); acked.append(third)
                b = b"".join(parts)
                tokens.append("R:" + hx(b))
                w.rx(b)
                e, k = cur, 0
                for v in acked:                 # each acknowledgement is judged against the number current when it is read
                    if v == e:
                        e, k = e % 3 + 1, k + 1
                label = "ACKs:%d" % k
            elif kind == "data":
                b = streams.command_frame(r, arg)
                tokens.append("R:" + hx(b))
                w.rx(b)
                label = "data"
            elif kind == "rflag":
                # `ZBOSS.reset()` raises the protocol's reset flag before it sends the reset request; transmission and
                # numbering do not depend on it (for the model: an empty read)
                tokens.append("R:")
                try:
                    w.p.reset_flag = True
                except Exception:
                    pass
                w.rx(b"")
                label = "reset-flag"
            elif kind == "tick":
                tokens.append("T")
                w.tick()
                label = "tick"
            elif kind == "cancel":
                tokens.append("C:%d" % arg)
                w.cancel(arg)
                label = "cancel"
            elif kind == "close":
                tokens.append("X")
                w.close()
                label = "close"
            else:
                tokens.append("N")
                w.reconnect()
                label = "reconnect"
            entries = [e for e in w.since(m) if e != "CLOSE"]
            steps.append(vloop.canon_step(entries))
            writes = [bytes.fromhex(e[1:]) for e in entries if e.startswith("W")]
            obs.append((label, before, priv.pack_seq(w.p, None), [x for x in writes if not x[5] & 1]))
            run_history.times.append(w.loop.time())
        final_seq = priv.pack_seq(w.p, None)
    finally:
        w.shutdown()
    return tokens, steps, obs, final_seq, sent_flags


def model_steps(ans):
    body, tail = ans.rsplit(" | ", 1)
    steps = []
    for s in body.split(";"):
        ents = [] if s == "." else [e for e in s.split(",") if not e.startswith("w")]
        steps.append(vloop.canon_step(ents))
    return steps, tail


def check_c08(ctx, evs, tokens, obs, sent_flags):
    """observation checker of C08 on the implementation's trace"""
    inp = dict(events=tokens)
    expect = 0
    for label, before, after, data_writes in obs:
        # every frame written during this step is stamped with the number valid when it was written
        for raw in data_writes:
            seq = (raw[5] >> 2) & 3
            sender = raw[13] if len(raw) > 13 else None
            ok_crc = streams.crc8(raw[2:6]) == raw[6]
            orig = sent_flags.get(sender)
            if not ok_crc:
                ctx.counterexample("stamp-crc", inp, "valid CRC8", hx(raw[:7]), "stamped header checksum invalid")
            if orig is not None and raw[5] != (orig | (seq << 2)):
                ctx.counterexample("stamp-flags", inp, orig | (seq << 2), raw[5], "stamped flags are not original | seq<<2")
            if before is not None and seq not in (before, after) and not label.startswith("ACKs:"):
                ctx.counterexample("seq-stamp", inp, (before, after), seq, "frame stamped with a number that is not current")
        expect_before = expect
        if before is not None and before != expect:
            ctx.counterexample("seq-drift", inp, expect, before, "sequence number changed between events")
        if label == "ACK(current)":
            expect = expect % 3 + 1
        elif label.startswith("ACKs:"):
            for _ in range(int(label[5:])):
                expect = expect % 3 + 1
        elif label == "close":
            expect = 0
        if after is not None and after != expect:
            ctx.counterexample("seq-automaton", inp, expect, after,
                               "after %s the sequence number is %d, expected %d" % (label, after, expect))
        if after is not None and after not in (0, 1, 2, 3):
            ctx.counterexample("seq-range", inp, "0..3", after, "sequence number out of range")
        # what is visible on the wire whether or not the field can be read: a frame written by this event carries the
        # number valid before or after the event
        for raw in data_writes:
            seq = (raw[5] >> 2) & 3
            if seq not in (expect_before, expect) and not label.startswith("ACKs:"):
                ctx.counterexample("seq-stamp", inp, (expect_before, expect), seq, "frame stamped with a number that is not current")


def drive(ctx, histories, prop_checker):
    r = ctx.rng
    lines, metas = [], []
    for evs in histories:
        tokens, steps, obs, final_seq, sent_flags = run_history(ctx, r, evs)
        labels = [o[0] for o in obs]
        ctx.case(tuple(tokens), nontrivial=len(set(labels)) >= 3,
                 sample=dict(events=[t[:24] for t in tokens[:10]], steps=[[e[:20] for e in s] for s in steps[:10]]))
        for o in obs:
            ctx.count("pair:seq%s/%s" % ("?" if o[1] is None else o[1], o[0]))
        prop_checker(ctx, evs, tokens, obs, sent_flags, steps)
        lines.append("link " + " ".join(tokens))
        metas.append((tokens, steps, final_seq))
    if ctx.driver:
        ans = ctx.driver.ask(lines)
        for (tokens, steps, final_seq), a in zip(metas, ans):
            msteps, tail = model_steps(a)
            mseq = int(tail.split(" ")[0][4:])
            if msteps != steps or (final_seq is not None and mseq != final_seq):
                bad = next((i for i, (x, y) in enumerate(zip(msteps, steps)) if x != y), len(steps))
                ctx.mismatch("link", dict(events=tokens, first_differing_step=bad),
                             dict(step=msteps[bad] if bad < len(msteps) else None, seq=mseq),
                             dict(step=steps[bad] if bad < len(steps) else None, seq=final_seq))
            ctx.traces += 1


KINDS = ["send"] * 4 + ["ack"] * 4 + ["ack0", "ack1", "ack2", "ack3", "data", "data", "tick", "tick", "close", "reconnect", "rflag", "acks", "acks"]


def all_histories(depth, alphabet):
    if depth == 0:
        yield []
        return
    for h in all_histories(depth - 1, alphabet):
        for a in alphabet:
            yield h + [a]


def run(ctx):
    r = ctx.rng
    ctx.rule = ("event histories over {send, ACK(current), ACK(0..3), incoming data frame, ACK-wait expiry (tick), "
                "close, reconnect}: random histories of depth 40 (thorough: also every history of depth <= 5 over an "
                "8-letter alphabet); non-trivial = at least 3 different event kinds; distinct by event list; the "
                "(sequence state x event) pair histogram is in input_distribution")
    hs = [gen_history(r, 40, KINDS) for _ in range(ctx.scale(200, 600))]
    if ctx.thorough():
        alpha = [("send", None), ("ack", None), ("ackn", 0), ("ackn", 2), ("data", 1), ("tick", None), ("close", None), ("reconnect", None)]
        n = 0
        for h in all_histories(5, alpha):
            n += 1
            k = 0
            hh = []
            for kind, arg in h:
                if kind == "send":
                    k += 1
                    hh.append(("send", k))
                else:
                    hh.append((kind, arg))
            hs.append(hh)
        ctx.exhaustive = True
        ctx.notes.append("exhaustive: all %d histories of depth 5 over 8 event kinds" % n)
    drive(ctx, hs, lambda ctx, evs, tokens, obs, sf, steps: check_c08(ctx, evs, tokens, obs, sf))
    reuse_scenarios(ctx)
    # the same with the real `ZBOSS` as the upper layer: requests, responses, unsolicited indications of every kind, close,
    # loss, connect - the number moves by matching acknowledgements only
    import hostdrive
    from props import c11
    c11.run_generic(ctx, hostdrive.monitor_c08, ctx.scale(120, 1200),
                    weights=dict(start=5, ack=6, rsp=2, ind=3, tick=2, cancel=0.5, badack=1, close=0.15, lost=0.05))


def reuse_scenarios(ctx):
    """The same command object transmitted several times (a retry loop in application code): every transmission
    builds its frame with `to_frame()` and must be stamped with exactly the current number - whatever was stamped on
    earlier transmissions of that object - also across close + reconnect."""
    import zigpy_zboss.commands as c
    r = ctx.rng
    for n in range(ctx.scale(6, 60)):
        cmds = [c.NcpConfig.GetModuleVersion.Req(TSN=r.randrange(255)), c.NcpConfig.GetZigbeeRole.Req(TSN=r.randrange(255))]
        w = vloop.LinkWorld()
        expect, hist = 0, []
        try:
            for k in range(r.randrange(5, 12)):
                cmd = r.choice(cmds)
                if r.random() < 0.15:
                    if r.random() < 0.5:
                        w.p.reset_flag = True; hist.append("reset flag raised")
                    w.close(); w.reconnect(); expect = 0; hist.append("close+reconnect")
                m = w.mark()
                w.start_send(k, cmd.to_frame())
                raws = [bytes.fromhex(e[1:]) for e in w.since(m) if e.startswith("W")]
                hist.append("send %s" % type(cmd).__qualname__)
                for raw in raws:
                    if len(raw) > 7 and (raw[5] != (0xC0 | (expect << 2)) or streams.crc8(raw[2:6]) != raw[6]):
                        ctx.counterexample("seq-stamp-reused-command", dict(history=list(hist)),
                                           dict(flags=0xC0 | (expect << 2), crc8="valid"),
                                           dict(flags=raw[5], crc8_valid=streams.crc8(raw[2:6]) == raw[6]),
                                           "a command object transmitted again is not stamped with the current sequence number")
                if r.random() < 0.8:
                    w.rx(streams.ack(expect)); expect = expect % 3 + 1; hist.append("ACK(current)")
                else:
                    while not w.tasks[k].done() and w.tick():
                        pass
                    hist.append("expiry")
            ctx.case(("reuse", tuple(hist)), sample=dict(history=hist[:8]))
            ctx.count("reuse-scenario")
        finally:
            w.shutdown()


def search(ctx):
    return None


def replay(ctx, rep):
    print(rep.get("what")); print("input:", rep.get("input"))
    print("expected:", rep.get("expected"), "observed:", rep.get("observed"))
    return 1
