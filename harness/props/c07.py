"""C07 - transmission is stop-and-wait: one unacknowledged data frame at a time, in order.

Tie: as C08 (real `send` tasks on a virtual-time loop vs the Lean `Link` model), with 1..4
concurrent senders and sender cancellation.
Observation checker (implementation trace only): a data frame is written only in a step whose event
ended the previous frame's wait - ACK carrying the current number, expiry of the ACK wait, or
cancellation of its sender - and in that step the previous sender completed; senders write in request
order, each non-cancelled sender exactly once (after draining the timers).
"""
from props import c08
from common import hx

ASSUMPTIONS = c08.ASSUMPTIONS + ["asyncio.Lock wakes waiters first-in first-out (CPython's implementation)"]

KINDS = ["send"] * 5 + ["ack"] * 3 + ["ack0", "ack1", "ack2", "ack3", "data", "tick", "tick", "cancel", "cancel", "ack", "rflag"]


def check_c07(ctx, evs, tokens, obs, sent_flags, steps):
    """stop-and-wait monitor over the implementation's trace"""
    inp = dict(events=tokens)
    prev_sender = None
    written = []
    completed = set()
    times = getattr(c08.run_history, "times", [])
    wrote_at = {}
    try:
        from zigpy_zboss import uart as _uart
        ack_wait = float(_uart.ACK_TIMEOUT)
    except Exception:
        ack_wait = None
    for k, ((kind, arg), (label, before, after, data_writes), st) in enumerate(zip(evs, obs, steps)):
        comps = [e for e in st if e.startswith(("done", "canc"))]
        now = times[k] if k < len(times) else None
        for raw in data_writes:
            wrote_at.setdefault(raw[13], now)
        for c in comps:
            i = int(c[4:])
            if (c.startswith("done") and i in written and label == "tick" and ack_wait is not None and now is not None
                    and wrote_at.get(i) is not None and now - wrote_at[i] < ack_wait - 1e-6):
                ctx.counterexample("wait-ended-early", dict(events=tokens, step=k),
                                   "the acknowledgement wait lasts %.3f s" % ack_wait,
                                   dict(sender=i, written_at=wrote_at[i], ended_at=now),
                                   "a sender's acknowledgement wait was ended by a timer before its own wait had expired")
            if c.startswith("done") and i in written and label not in ("ACK(current)", "tick"):
                ctx.counterexample("wait-ended-without-cause", dict(events=tokens, step=k), "ACK(current) or expiry",
                                   dict(event=tokens[k][:24], completion=c),
                                   "a sender's acknowledgement wait ended although neither a matching ACK arrived nor the wait expired")
            if c.startswith("canc") and not (kind == "cancel" and arg == i):
                ctx.counterexample("spurious-cancel", dict(events=tokens, step=k), "cancel(%d)" % i, tokens[k][:24],
                                   "a sender was cancelled by an event that is not its own cancellation")
        completed.update(int(c[4:]) for c in comps)
        if len(data_writes) > 1:
            ctx.counterexample("two-frames-in-one-step", dict(events=tokens, step=k), "at most one data frame per event", len(data_writes),
                               "two data frames were written without an acknowledgement, expiry or cancellation in between")
        for raw in data_writes:
            if ("done%d" % raw[13]) in comps:
                ctx.counterexample("ack-wait-skipped", dict(events=tokens, step=k), "the sender waits for ACK / expiry",
                                   dict(event=tokens[k][:24], completions=comps),
                                   "a sender returned in the very step in which its frame was written: the acknowledgement wait did not take place")
        for raw in data_writes:
            sender = raw[13]
            if prev_sender is not None and prev_sender not in completed:
                ctx.counterexample("not-stop-and-wait", dict(events=tokens, step=k),
                                   "previous frame acknowledged / expired / sender cancelled",
                                   dict(event=tokens[k][:24], previous_sender=prev_sender, completions=comps),
                                   "a data frame was written while the previous one was still unacknowledged")
            written.append(sender)
            prev_sender = sender
    if written != sorted(written) or len(set(written)) != len(written):
        ctx.counterexample("order-or-duplicate", inp, sorted(set(written)), written,
                           "data frames are not written in request order, each once")


def run_c07_history(ctx, r, evs):
    # append a drain: enough ticks to let every queued sender go
    nsend = sum(1 for k, _ in evs if k == "send")
    evs2 = evs + [("tick", None)] * (nsend + 1)
    tokens, steps, obs, final_seq, sent_flags = c08.run_history(ctx, r, evs2)
    return evs2, tokens, steps, obs, final_seq, sent_flags


def tie_scenarios(ctx):
    """Coincidences the event-at-a-time histories never produce: the matching acknowledgement is read in the very loop
    iteration in which the sender's wait expires, or in which the sender is cancelled.  Whatever the outcome for that
    sender, the link must be in order afterwards: of two further senders the second is written only after the first has
    been acknowledged (implementation-side observation; the model takes events one at a time)."""
    import streams
    import vloop
    r = ctx.rng
    for variant in ("ack-at-expiry", "ack-then-cancel", "cancel-then-ack", "ack-at-expiry-queued"):
        for rep in range(ctx.scale(3, 20)):
            w = vloop.LinkWorld()
            try:
                fa, _, _ = c08.make_frame(r, 1)
                fb, _, _ = c08.make_frame(r, 2)
                fc, _, _ = c08.make_frame(r, 3)
                pre = r.randrange(0, 3)
                cur = 0
                for _ in range(pre):                      # some ordinary traffic first
                    f0, _, _ = c08.make_frame(r, 9)
                    w.start_send(90 + _, f0); w.rx(streams.ack(cur)); cur = cur % 3 + 1
                w.start_send(1, fa)
                if variant == "ack-at-expiry-queued":
                    w.start_send(2, fb)
                if variant.startswith("ack-at-expiry"):
                    t = w.loop.next_timer()
                    if t is not None:
                        w.loop._vt = max(w.loop._vt, t)   # the clock stands at the deadline, nothing has run yet
                    w.p.data_received(streams.ack(cur))
                elif variant == "ack-then-cancel":
                    w.p.data_received(streams.ack(cur)); w.tasks[1].cancel()
                else:
                    w.tasks[1].cancel(); w.p.data_received(streams.ack(cur))
                w.loop.settle()
                m = w.mark()
                if variant != "ack-at-expiry-queued":
                    w.start_send(2, fb)
                w.start_send(3, fc)
                first = [bytes.fromhex(e[1:])[13] for e in w.since(m) if e.startswith("W") and not bytes.fromhex(e[1:])[5] & 1]
                if variant == "ack-at-expiry-queued":
                    first = [bytes.fromhex(e[1:])[13] for e in w.log if e.startswith("W") and not bytes.fromhex(e[1:])[5] & 1 and bytes.fromhex(e[1:])[13] in (2, 3)]
                done3 = w.tasks[3].done()
                inp = dict(variant=variant, earlier_frames=pre)
                ctx.case(("tie", variant, rep, pre), nontrivial=True, sample=dict(inp, written_after=first, third_returned=done3))
                ctx.count("tie:" + variant)
                if 3 in first or done3:
                    ctx.counterexample("not-stop-and-wait-after-coincidence", inp, "sender 3 waits for sender 2's acknowledgement",
                                       dict(written=first, sender_3_returned=done3),
                                       "after an acknowledgement coincided with the expiry / cancellation of its wait, a frame is written "
                                       "(or a sender returns) while the previous frame is unacknowledged")
                    continue
                # sender 2's acknowledgement lets sender 3 go
                seq2 = None
                for e in w.log:
                    if e.startswith("W"):
                        raw = bytes.fromhex(e[1:])
                        if not raw[5] & 1 and raw[13] == 2:
                            seq2 = (raw[5] >> 2) & 3
                if seq2 is not None:
                    m = w.mark()
                    w.rx(streams.ack(seq2))
                    got3 = [1 for e in w.since(m) if e.startswith("W") and not bytes.fromhex(e[1:])[5] & 1 and bytes.fromhex(e[1:])[13] == 3]
                    if not got3:
                        ctx.counterexample("sender-starved-after-coincidence", inp, "sender 3 written after sender 2's ACK", w.since(m)[:4],
                                           "after the coincidence a queued sender is not written when its predecessor is acknowledged")
            finally:
                w.shutdown()


def run(ctx):
    tie_scenarios(ctx)
    import streams
    r = ctx.rng
    ctx.rule = ("histories of 1..4 concurrently pending senders over {send, matching ACK, ACK with each other value, "
                "duplicate ACK, unrelated data frame, expiry, cancellation of a random sender}, depth 30 + drain; "
                "thorough adds every history of depth <= 6 over 3 senders; non-trivial = >= 2 sends and >= 3 event kinds")
    hs = [c08.gen_history(r, 30, KINDS) for _ in range(ctx.scale(200, 800))]
    # long histories: many rounds of "one frame in flight, a second sender queued and cancelled (or timing out), the
    # acknowledgement", then plain traffic - whatever each round leaves behind must not add up
    for rounds in (40, 70):
        h, n = [], 0
        for k in range(rounds):
            n += 1; h.append(("send", n))
            n += 1; h.append(("send", n)); h.append(("cancel", n))
            h.append(("ack", None) if k % 5 else ("tick", None))
        for _ in range(4):
            n += 1; h.append(("send", n)); h.append(("ack", None))
        hs.append(h)
    if ctx.thorough():
        alpha = [("send", None), ("ack", None), ("ackn", 3), ("data", 2), ("tick", None), ("cancel", 1), ("cancel", 2)]
        for h in c08.all_histories(6, alpha):
            k = 0
            hh = []
            for kind, arg in h:
                if kind == "send":
                    k += 1
                    if k > 3:
                        break
                    hh.append(("send", k))
                else:
                    hh.append((kind, arg))
            else:
                hs.append(hh)
        ctx.exhaustive = True
    lines, metas = [], []
    for evs in hs:
        evs2, tokens, steps, obs, final_seq, sent_flags = run_c07_history(ctx, r, evs)
        labels = [o[0] for o in obs]
        ctx.case(tuple(tokens), nontrivial=labels.count("send") >= 2 and len(set(labels)) >= 3,
                 sample=dict(events=[t[:16] for t in tokens[:12]], steps=[[e[:18] for e in s] for s in steps[:12]]))
        for kind, _ in evs:
            ctx.count("event:" + kind)
        check_c07(ctx, evs2, tokens, obs, sent_flags, steps)
        # every non-cancelled sender wrote exactly once
        written = [raw[13] for o in obs for raw in o[3]]
        cancelled = set(int(e[4:]) for s in steps for e in s if e.startswith("canc"))
        nsend = sum(1 for k, _ in evs if k == "send")
        missing = [i for i in range(1, nsend + 1) if i not in cancelled and written.count(i) != 1]
        if missing:
            ctx.counterexample("sender-starved-or-duplicated", dict(events=tokens), "each non-cancelled sender writes once",
                               dict(written=written, cancelled=sorted(cancelled)), "a sender never got to write, or wrote twice")
        lines.append("link " + " ".join(tokens))
        metas.append((tokens, steps, final_seq))
    if ctx.driver:
        ans = ctx.driver.ask(lines)
        for (tokens, steps, final_seq), a in zip(metas, ans):
            msteps, tail = c08.model_steps(a)
            mseq = int(tail.split(" ")[0][4:])
            ctx.traces += 1
            if msteps != steps or (final_seq is not None and mseq != final_seq):
                bad = next((i for i, (x, y) in enumerate(zip(msteps, steps)) if x != y), len(steps))
                ctx.mismatch("link", dict(events=tokens, first_differing_step=bad),
                             dict(step=msteps[bad] if bad < len(msteps) else None, seq=mseq),
                             dict(step=steps[bad] if bad < len(steps) else None, seq=final_seq))


def search(ctx):
    return None


def replay(ctx, rep):
    return c08.replay(ctx, rep)
