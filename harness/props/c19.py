"""C19 - command identifiers, field layouts and enum values stay the NCP protocol's.

Tie: the command table is regenerated from the imported classes on every run (translator 3) and
compared in Lean with the committed golden table of the pinned revision (`decide +kernel`).
Observation checker (implementation only): for every pinned class (matched by header) the pinned
value assignments are rebuilt on the current classes and must serialize to the pinned bytes and
decode back; enum / flag members present at both revisions must keep their numeric value; every value of
every one-byte enumeration / flag type (listed or not; samples of the wider ones) keeps its wire image in both
directions (`corpus/C19/enum_wire.json`); headers
identify classes one-to-one; every Req has exactly one Rsp with the same id.
"""
import json
import os

import codecio
import common
from common import hx
import mkpinned

ASSUMPTIONS = ["identity is positional and numeric: renaming parameters, classes or enum members, adding members or "
               "commands, or changing `blocking` is not drift (DESIGN.md 8.4); two parameters that exchange their "
               "positions are drift (pinned values are assigned by pinned name when the name still exists)"]


def run(ctx):
    import zigpy_zboss.types as t
    tab = codecio.table()
    pinned = json.load(open(os.path.join(common.VERIF, "corpus", "C19", "vectors.json")))
    by_header = {}
    for i, row in enumerate(tab):
        by_header.setdefault(row[2], []).append(i)
    ctx.rule = ("all 145 pinned classes x 8-10 pinned value assignments (boundary/random, every optional prefix, successful responses with empty/short/longer lists) rebuilt "
                "on the current classes; all enum/flag members of 23 pinned types; non-trivial = assignment with >= 2 "
                "parameters; distinct by pinned bytes")
    ctx.exhaustive = True
    for h, idxs in by_header.items():
        if len(idxs) > 1:
            ctx.counterexample("header-collision", dict(header=h, classes=[tab[i][1] for i in idxs]), "one class per header",
                               len(idxs), "two command classes share one header")
    ids = {}
    for row in tab:
        ids.setdefault(row[2] >> 16, []).append((row[2] >> 8) & 0xFF)
    for cid, cts in ids.items():
        if 0 in cts and sorted(cts) != [0, 1]:
            ctx.counterexample("req-rsp-pairing", dict(command_id=cid), [0, 1], sorted(cts), "a request is not paired with exactly one response of the same id")
    for v in pinned["vectors"]:
        idxs = by_header.get(v["header"], [])
        if not idxs:
            ctx.counterexample("command-missing", dict(header=v["header"]), "a class with this header", None,
                               "a command of the pinned revision has no class with its header any more")
            continue
        idx = idxs[0]
        cls = tab[idx][0]
        for case in v["cases"]:
            want = bytes.fromhex(case["bytes"])
            nparams = sum(1 for x in case["values"].values() if x is not None)
            ctx.case((v["header"], case["bytes"]), nontrivial=nparams >= 2,
                     sample=dict(cls=tab[idx][1], header=v["header"], bytes=case["bytes"][:40]))
            ctx.count("ctype=%d" % ((v["header"] >> 8) & 0xFF))
            inp = dict(cls=tab[idx][1], header=v["header"], values=case["values"])
            try:
                params = list(cls.schema)
                if len(params) != len(case["values"]):
                    raise ValueError("number of parameters changed: %d -> %d" % (len(case["values"]), len(params)))
                kw = {}
                cur_names = {p.name: p for p in params}
                pinned_names = list(case["values"].keys())
                for p, (pname, pv) in zip(params, case["values"].items()):
                    if pv is None:
                        continue
                    # a value belongs to the parameter that carries its pinned name when that name still exists
                    # (so two parameters that swapped places are seen); a renamed parameter keeps its position
                    tgt = cur_names[pname] if pname in cur_names else p
                    if pname not in cur_names and p.name in pinned_names:
                        tgt = p
                    kw[tgt.name] = mkpinned.unprim(tgt.type, pv)
                cmd = cls(**kw)
                got = cmd.to_frame().hl_packet.serialize()[2:]
            except Exception as ex:
                ctx.counterexample("wire-drift", inp, case["bytes"], "%s: %s" % (type(ex).__name__, ex),
                                   "a pinned value assignment can no longer be encoded")
                continue
            if got != want:
                ctx.counterexample("wire-drift", inp, case["bytes"], got.hex(),
                                   "the bytes for a pinned command and values differ from the pinned revision")
                continue
            # the order of the fields on the wire is the schema's, whatever order the caller names them in
            opt = {q.name for q in params if getattr(q, "optional", False)}
            req_names = [n for n in kw if n not in opt]
            if len(req_names) >= 2:
                kw2 = {n: kw[n] for n in reversed(req_names)}
                kw2.update({n: kw[n] for n in kw if n in opt})
                try:
                    got2 = cls(**kw2).to_frame().hl_packet.serialize()[2:]
                except Exception as ex:
                    got2 = ("%s: %s" % (type(ex).__name__, ex)).encode()
                ctx.count("keywords-in-reverse-order")
                if got2 != want:
                    ctx.counterexample("wire-drift-keyword-order", dict(inp, keyword_order=list(kw2)), case["bytes"], got2.hex(),
                                       "the same command and values, named in another keyword order, give other bytes than at the pinned revision")
                    continue
            if ((v["header"] >> 8) & 0xFF) in (1, 2):
                # the direction the host parses: the pinned bytes decode to the pinned values and encode back
                from props import c04
                try:
                    back = cls.from_frame(cmd.to_frame())
                    again = want if back._partial else back.to_frame().hl_packet.serialize()[2:]
                    if not c04.canon_eq(cmd, back):
                        ctx.counterexample("wire-drift-decode", inp, case["values"], " ".join(codecio.to_strings(idx, back)),
                                           "the pinned bytes of a command decode to different values than at the pinned revision")
                    elif again != want and back == cmd:
                        ctx.counterexample("wire-drift-decode", inp, case["bytes"], again.hex(),
                                           "decoding and re-encoding the pinned bytes changes them")
                except Exception as ex:
                    ctx.counterexample("wire-drift-decode", inp, "decodes", "%s: %s" % (type(ex).__name__, ex),
                                       "the pinned bytes of a command can no longer be decoded")
    # enum members
    import importlib
    for key, members in pinned["enums"].items():
        mod, _, qn = key.rpartition(".")
        try:
            obj = importlib.import_module(mod)
            for part in qn.split("."):
                obj = getattr(obj, part)
        except Exception:
            # the type moved or was renamed: its values are still pinned positionally through the Lean table
            ctx.count("enum-type-not-found-by-name")
            continue
        for name, val in members.items():
            ctx.case(("enum", key, name), nontrivial=True)
            ctx.count("enum-member")
            if hasattr(obj, name) and int(getattr(obj, name)) != val:
                ctx.counterexample("enum-drift", dict(enum=key, member=name), val, int(getattr(obj, name)),
                                   "an enumeration / flag member changed its numeric value")


    # the enumeration a parameter is typed with - found through the command's own schema, not by module path - keeps the
    # pinned members' values (a re-export that starts to point at another enumeration of the same name is drift)
    penums = json.load(open(os.path.join(common.VERIF, "corpus", "C19", "param_enums.json")))
    for h, idxs in by_header.items():
        keys = penums.get(str(h))
        if not keys or len(idxs) != 1:
            continue
        cls = tab[idxs[0]][0]
        params = list(cls.schema)
        if len(params) != len(keys):
            continue                      # reported as wire drift above
        for p, key in zip(params, keys):
            if key is None or key not in pinned["enums"]:
                continue
            T = p.type
            ctx.case(("param-enum", h, p.name), nontrivial=True)
            ctx.count("param-enum")
            for name, val in pinned["enums"][key].items():
                if hasattr(T, name):
                    try:
                        cur = int(getattr(T, name))
                    except Exception:
                        continue
                    if cur != val:
                        ctx.counterexample("enum-drift", dict(cls=tab[idxs[0]][1], parameter=p.name, enum=key, member=name,
                                                              current_type=getattr(T, "__module__", "?") + "." + getattr(T, "__qualname__", "?")),
                                           val, cur, "the enumeration a command parameter is typed with gives a pinned member another numeric value")
                        break
    # wire image of listed and unlisted values: a value an NCP sends that the table does not list (a newer firmware's
    # status code, reserved flag bits) must travel unchanged in both directions, as at the pinned revision
    wire = json.load(open(os.path.join(common.VERIF, "corpus", "C19", "enum_wire.json")))
    for key, vals in wire.items():
        mod, _, qn = key.rpartition(".")
        try:
            obj = importlib.import_module(mod)
            for part in qn.split("."):
                obj = getattr(obj, part)
        except Exception:
            continue
        now = mkpinned.enum_wire_of(obj, [int(v) for v in vals])
        listed = {int(m) for m in obj}
        for v, (enc, dec) in vals.items():
            ctx.case(("enum-wire", key, v), nontrivial=int(v) not in listed)
            ctx.count("enum-wire:%s" % ("listed" if int(v) in listed else "unlisted"))
            got = now[v]
            if got != [enc, dec]:
                ctx.counterexample("enum-wire-drift", dict(enum=key, value=int(v), listed=int(v) in listed),
                                   dict(encodes_to=enc, decodes_to=dec), dict(encodes_to=got[0], decodes_to=got[1]),
                                   "a value of an enumeration / flag type no longer has the wire image it had at the pinned revision")
                break


def search(ctx):
    return None


def replay(ctx, rep):
    print(rep.get("what")); print(rep.get("input")); print("expected", rep.get("expected")); print("observed", rep.get("observed"))
    return 1
