"""C16 - wire types are self-delimiting, strict on short input, and invert exactly.

Tie: (a) every wire type the library defines or uses (integers, enums, EUI64, keys, LVBytes,
ShortBytes/LongBytes, LVList families, greedy lists, simple descriptors) vs the Lean `wenc`/`wdec`
ops: value -> bytes, bytes+suffix -> value, every truncation point; (b) randomly generated
`CStruct` subclasses (nesting depth <= 3, both alignment modes) vs the Lean layout / codec
(`clayout`, `cenc`, `cdec`); (c) NVRAM containers in the NCP read layout (`nvaddr`, `nvaps`).
Observation checker (implementation only): deserialize(serialize(v) + suffix) == (v, suffix);
every strict prefix raises ValueError; offsets obey natural alignment / packing; NVRAM parse
returns exactly the stored records.
"""
import random

import codecio
import extract_commands
import gen
from common import hx

ASSUMPTIONS = ["zigpy-provided types by wire footprint", "greedy types: suffix / truncation claims do not apply (they consume everything)",
               "CStruct fields: fixed-width integers, EUI64, KeyData, nested CStructs"]


def wire_types():
    import zigpy.types as zt
    import zigpy_zboss.types as t
    from zigpy_zboss.types import basic, named, nvids
    from zigpy_zboss import commands as c
    types = [zt.uint8_t, zt.uint16_t, zt.uint24_t, zt.uint32_t, zt.uint40_t, zt.uint56_t, zt.uint64_t, zt.int8s, zt.int16s,
             zt.int32s, t.StatusCodeGeneric, t.DeviceRole, t.PolicyType, c.aps.TransmitOptions, zt.Channels,
             zt.EUI64, zt.KeyData, zt.NWK, zt.LVBytes, named.GrpList, named.ChannelEntryList, named.NWKList,
             nvids.NVRAMDataset, c.zdo.EnergyValues, c.zdo.NWKArray, named.Payload, t.SimpleDescriptor]
    out = []
    for T in types:
        d = extract_commands.fields_of("v", T)
        assert len(d) == 1
        out.append((T, d[0][1]))
    return out


def impl_dec(T, data):
    try:
        v, rest = T.deserialize(data)
        return v, rest, None
    except ValueError:
        return None, None, "valueError"
    except Exception as ex:   # noqa
        return None, None, type(ex).__name__


def run_wire(ctx):
    r = ctx.rng
    lines, metas = [], []
    for T, desc in wire_types():
        w = codecio.wt_str(desc)
        greedy = desc[0] == "greedy"
        vals = [gen.gen(T, r) for _ in range(ctx.scale(6, 80))]
        if T.__name__ == "SimpleDescriptor":
            # every combination of "how many input / output clusters" (none, one, several), systematically
            for ni in (0, 1, 3):
                for no in (0, 1, 2):
                    i = [r.getrandbits(16) for _ in range(ni)]
                    o = [r.getrandbits(16) for _ in range(no)]
                    vals.append(T(endpoint=r.getrandbits(8), profile=r.getrandbits(16), device_type=r.getrandbits(16),
                                  device_version=r.getrandbits(8), input_clusters_count=ni, output_clusters_count=no,
                                  input_clusters=i, output_clusters=o))
        for v in vals:
            raw = v.serialize()
            suffix = b"" if greedy else bytes(r.getrandbits(8) for _ in range(r.choice([0, 1, 3, 9])))
            lines.append("wenc %s %s" % (w, codecio.val_str(desc, v)))
            lines.append("wdec %s %s" % (w, hx(raw + suffix)))
            metas.append(("rt", T, desc, v, raw, suffix))
            if not greedy:
                for k in range(len(raw)):
                    lines.append("wdec %s %s" % (w, hx(raw[:k])))
                    metas.append(("cut", T, desc, v, raw, k))
    ans = ctx.driver.ask(lines) if ctx.driver else None
    pos = 0
    for m in metas:
        if m[0] == "rt":
            _, T, desc, v, raw, suffix = m
            name = T.__qualname__
            ctx.case((name, raw, suffix), nontrivial=len(raw) > 0, sample=dict(type=name, value=codecio.val_str(desc, v)[:60], bytes=hx(raw)[:60]))
            ctx.count("type:" + desc[0])
            back, rest, err = impl_dec(T, raw + suffix)
            inp = dict(type=name, value=codecio.val_str(desc, v), bytes=hx(raw), suffix=hx(suffix))
            if err or back != v or bytes(rest) != suffix:
                ctx.counterexample("not-inverse", inp, "(value, suffix)", err or (codecio.val_str(desc, back), hx(bytes(rest))),
                                   "decoding encoding+suffix does not return the value and exactly the suffix")
            if ans:
                if ans[pos] != "ok " + hx(raw):
                    ctx.mismatch("wenc", inp, ans[pos], "ok " + hx(raw))
                want = "err valueError" if err else "ok %s rest=%s" % (codecio.val_str(desc, back), hx(bytes(rest)))
                if ans[pos + 1] != want:
                    ctx.mismatch("wdec", inp, ans[pos + 1], want)
            pos += 2
        else:
            _, T, desc, v, raw, k = m
            name = T.__qualname__
            ctx.case((name, raw, k), nontrivial=True)
            ctx.count("truncation")
            back, rest, err = impl_dec(T, raw[:k])
            inp = dict(type=name, bytes=hx(raw), cut=k)
            if err != "valueError":
                ctx.counterexample("truncation-accepted", inp, "ValueError", err or codecio.val_str(desc, back),
                                   "decoding an encoding cut short does not raise a value error")
            if ans:
                want = "err valueError" if err == "valueError" else ("ok %s rest=%s" % (codecio.val_str(desc, back), hx(bytes(rest))) if err is None else "err " + err)
                if ans[pos] != want:
                    ctx.mismatch("wdec-cut", inp, ans[pos], want)
            pos += 1


def rand_cty(r, depth):
    import zigpy.types as zt
    leaf = [("i1", zt.uint8_t), ("i2", zt.uint16_t), ("i4", zt.uint32_t), ("i8", zt.uint64_t), ("j1", zt.int8s), ("j2", zt.int16s),
            ("i3", zt.uint24_t), ("o8", zt.EUI64), ("o16", zt.KeyData)]
    if depth > 0 and r.random() < 0.3:
        return rand_struct(r, depth - 1)
    return r.choice(leaf)


_counter = [0]


def rand_struct(r, depth, base=None):
    """a generated struct class; with `base` = (type string, class) a struct that *extends* that one (its fields
    follow the inherited ones)"""
    from zigpy_zboss.types.cstruct import CStruct
    n = r.randrange(1, 6) if base is None else r.randrange(1, 4)
    fields = [rand_cty(r, depth) for _ in range(n)]
    _counter[0] += 1
    k0 = 0 if base is None else 100
    ann = {"f%d" % (k0 + i): f[1] for i, f in enumerate(fields)}
    cls = type("VStruct%d" % _counter[0], (CStruct,) if base is None else (base[1],),
               {"__annotations__": ann, "__module__": __name__})
    inner = ([] if base is None else [base[0][2:-1]]) + [f[0] for f in fields]
    return ("S(" + ",".join(inner) + ")", cls)


def rand_cval(r, cls):
    """(value string, instance)"""
    from zigpy_zboss.types.cstruct import CStruct
    import zigpy.types as zt
    parts, kw = [], {}
    for f in cls.fields:
        T = f.type
        if issubclass(T, CStruct):
            s, v = rand_cval(r, T)
        elif issubclass(T, (zt.EUI64, zt.KeyData)):
            v = gen.gen(T, r)
            s = "x" + v.serialize().hex()
        else:
            v = gen.gen(T, r)
            s = "n%d" % int(v)
        parts.append(s)
        kw[f.name] = v
    return "S(" + ",".join(parts) + ")", cls(**kw)


def cval_str(v):
    from zigpy_zboss.types.cstruct import CStruct
    import zigpy.types as zt
    if isinstance(v, CStruct):
        return "S(" + ",".join(cval_str(getattr(v, f.name)) for f in v.fields) + ")"
    if isinstance(v, (zt.EUI64, zt.KeyData)):
        return "x" + v.serialize().hex()
    if v is None:
        return "unset"
    return "n%d" % int(v)


def run_cstruct(ctx):
    r = ctx.rng
    lines, metas = [], []
    todo = []
    for _ in range(ctx.scale(80, 2500)):
        b = rand_struct(r, r.choice([0, 1, 2, 3]))
        todo.append(b)
        if r.random() < 0.3:
            # a struct extending the previous one, used after its base (and, half of the time, in the other mode first)
            todo.append(rand_struct(r, r.choice([0, 1]), base=b) + (r.random() < 0.5,))
    for item in todo:
        ty, cls = item[0], item[1]
        modes = (True, False) if len(item) > 2 and item[2] else (False, True)
        if len(item) > 2:
            ctx.count("cstruct:extends-another")
        for al in modes:
            size, align = cls.get_size(align=al), cls.get_alignment(align=al)
            offs, off = [], 0
            fields = []
            for padding, sz, f in cls.get_padded_fields(align=al):
                offs.append(off + padding)
                fields.append((off + padding, sz, f.get_size_and_alignment(align=al)[1]))
                off += padding + sz
            vs, inst = rand_cval(r, cls)
            try:
                raw = inst.serialize(align=al)
            except Exception as ex:
                ctx.counterexample("struct-not-inverse", dict(struct=ty, align=al, value=vs), "an encoding",
                                   "%s: %s" % (type(ex).__name__, ex), "a valid struct value cannot be serialized")
                continue
            suffix = bytes(r.getrandbits(8) for _ in range(r.choice([0, 2, 5])))
            lines += ["clayout %d %s" % (al, ty), "cenc %d %s %s" % (al, ty, vs), "cdec %d %s %s" % (al, ty, hx(raw + suffix))]
            cut = r.randrange(0, len(raw))
            lines.append("cdec %d %s %s" % (al, ty, hx(raw[:cut])))
            metas.append((ty, cls, al, size, align, offs, fields, vs, inst, raw, suffix, cut))
    ans = ctx.driver.ask(lines) if ctx.driver else None
    for k, (ty, cls, al, size, align, offs, fields, vs, inst, raw, suffix, cut) in enumerate(metas):
        inp = dict(struct=ty, align=al, value=vs)
        ctx.case((ty, al, raw), nontrivial=("S(" in ty[2:]) or len(offs) > 2,
                 sample=dict(struct=ty, align=al, size=size, offsets=offs, bytes=hx(raw)[:50]))
        ctx.count("cstruct:align=%d" % al)
        # natural alignment / packing
        if al:
            bad = [(o, a) for (o, s, a) in fields if o % a] or (size % align != 0)
        else:
            exp, o = [], 0
            for (_, s, a) in fields:
                exp.append(o)
                o += s
            bad = exp != offs or size != o
        if bad:
            ctx.counterexample("struct-layout", inp, "natural alignment" if al else "packed", dict(size=size, offsets=offs),
                               "struct size / field offsets do not follow the alignment rule")
        try:
            back, rest = cls.deserialize(raw + suffix, align=al)
            impl = "ok %s rest=%s" % (cval_str(back), hx(rest))
            if back != inst or rest != suffix:
                ctx.counterexample("struct-not-inverse", inp, vs, impl, "struct decode(encode(v)+suffix) != (v, suffix)")
            if len(raw) != cls.get_size(align=al):
                ctx.counterexample("struct-not-inverse", inp, cls.get_size(align=al), len(raw),
                                   "the encoding does not have the size the struct declares")
        except ValueError:
            impl = "err valueError"
            ctx.counterexample("struct-not-inverse", inp, vs, impl, "struct rejects its own encoding")
        try:
            b2, r2 = cls.deserialize(raw[:cut], align=al)
            impl_cut = "ok %s rest=%s" % (cval_str(b2), hx(r2))
            ctx.counterexample("struct-truncation-accepted", dict(inp, cut=cut), "ValueError", impl_cut, "truncated struct accepted")
        except ValueError:
            impl_cut = "err valueError"
        if ans:
            a = ans[4 * k:4 * k + 4]
            want0 = "%d %d %s" % (size, align, ",".join(str(o) for o in offs))
            if a[0] != want0:
                ctx.mismatch("clayout", inp, a[0], want0)
            if a[1] != "ok " + hx(raw):
                ctx.mismatch("cenc", inp, a[1], "ok " + hx(raw))
            if a[2] != impl:
                ctx.mismatch("cdec", inp, a[2], impl)
            if a[3] != impl_cut:
                ctx.mismatch("cdec-cut", dict(inp, cut=cut), a[3], impl_cut)


def _mutate_leaf(r, inst):
    """change one leaf of a (possibly nested) struct instance *in place*; returns a description or None"""
    from zigpy_zboss.types.cstruct import CStruct
    import zigpy.types as zt
    f = r.choice(list(inst.fields))
    v = getattr(inst, f.name)
    if isinstance(v, CStruct):
        d = _mutate_leaf(r, v)
        return None if d is None else f.name + "." + d
    if isinstance(v, (zt.EUI64, zt.KeyData)):
        v[0] = zt.uint8_t((int(v[0]) + 1) % 256)        # element of a list-like field, in place
        return f.name + "[0]"
    if isinstance(v, int):
        lo, hi = gen.int_bounds(f.type)
        nv = f.type(hi if int(v) != hi else lo)
        setattr(inst, f.name, nv)
        return f.name
    return None


def run_mutation(ctx):
    """A struct value that is serialized, changed in place (a nested field, an element of an address field, a direct
    assignment) and serialized again: the second encoding must be the encoding of the value it has then
    (oracle: the Lean struct codec on the values read back from the instance)."""
    r = ctx.rng
    lines, metas = [], []
    for _ in range(ctx.scale(60, 1500)):
        ty, cls = rand_struct(r, r.choice([1, 2, 2, 3]))
        al = r.random() < 0.5
        _vs, inst = rand_cval(r, cls)
        first = inst.serialize(align=al)
        what = []
        for _k in range(r.randrange(1, 4)):
            d = _mutate_leaf(r, inst)
            if d:
                what.append(d)
        if not what:
            continue
        second = inst.serialize(align=al)
        now = cval_str(inst)
        lines.append("cenc %d %s %s" % (al, ty, now))
        metas.append((ty, al, what, now, first, second, inst, cls))
    ans = ctx.driver.ask(lines) if ctx.driver else [None] * len(lines)
    for (ty, al, what, now, first, second, inst, cls), a in zip(metas, ans):
        inp = dict(struct=ty, align=al, changed_in_place=what, value_now=now)
        ctx.case(("mut", ty, al, now), sample=dict(struct=ty, align=al, changed=what, bytes=hx(second)[:40]))
        ctx.count("cstruct:mutated-in-place")
        # implementation-only oracle: a fresh instance built from the current field values
        fresh = cls(**{f.name: getattr(inst, f.name) for f in cls.fields}).serialize(align=al)
        want = bytes.fromhex(a[3:]) if (a and a.startswith("ok ") and a[3:] != "-") else fresh
        if second != want:
            ctx.counterexample("struct-stale-encoding", inp, hx(want), hx(second),
                               "after an in-place change the struct serializes to the encoding of its earlier value")
        elif a and a.startswith("ok ") and fresh != want:
            ctx.mismatch("cenc-mutated", inp, a, "ok " + hx(fresh))


def run_list_mutation(ctx):
    """A list value (every list type that occurs in a command schema) that is serialized - directly and as a command
    parameter -, changed in place with each of Python's list mutators, and serialized again: the second encoding is the
    encoding of the content it has then (oracle: a fresh list of the same type built from that content)."""
    import codecio
    import gen
    r = ctx.rng
    ltypes = {}
    for cls, qn, hdr, blocking, fl in codecio.table():
        for p in cls.schema:
            T = p.type
            if isinstance(T, type) and issubclass(T, list) and getattr(T, "_item_type", None) is not None:
                ltypes.setdefault(T, (cls, p))
    mutators = ["append", "extend", "insert", "pop", "remove", "del", "clear", "iadd", "sort", "reverse", "setitem", "setslice"]
    for T, (cls, p) in ltypes.items():
        for mut in mutators:
            for rep in range(ctx.scale(1, 6)):
                try:
                    v = gen.gen(T, r, size=r.choice([1, 2, 3]))
                except Exception:
                    continue
                if getattr(T, "_length", None) is not None and mut not in ("sort", "reverse", "setitem", "setslice"):
                    continue          # fixed-length lists: only the length-preserving mutators
                try:
                    first = v.serialize()
                    kw_cmd = None
                    if rep % 2 == 0:
                        base = gen.gen_cmd(cls, r)
                        kw = {q.name: getattr(base, q.name) for q in cls.schema if getattr(base, q.name) is not None}
                        kw[p.name] = v
                        cls(**kw).to_frame()
                        kw_cmd = kw
                    item = gen.gen(T._item_type, r)
                    if mut == "append": v.append(item)
                    elif mut == "extend": v.extend([item])
                    elif mut == "insert": v.insert(0, item)
                    elif mut == "pop": v.pop()
                    elif mut == "remove": v.remove(v[0])
                    elif mut == "del": del v[0]
                    elif mut == "clear": v.clear()
                    elif mut == "iadd": v += [item]
                    elif mut == "sort": v.sort(key=lambda x: bytes(x.serialize()) if hasattr(x, "serialize") else x, reverse=True)
                    elif mut == "reverse": v.reverse()
                    elif mut == "setitem": v[0] = item
                    elif mut == "setslice": v[0:1] = [item]
                    second = v.serialize()
                    fresh = T(list(v)).serialize()
                except Exception:
                    continue
                inp = dict(list_type=T.__name__, mutator=mut, content_now=[hx(x.serialize()) if hasattr(x, "serialize") else x for x in list(v)][:6],
                           used_in_command_before=bool(kw_cmd))
                ctx.case(("listmut", T.__name__, mut, second), sample=dict(inp, bytes=hx(second)[:40]))
                ctx.count("list:mutated-in-place:" + mut)
                if second != fresh:
                    ctx.counterexample("list-stale-encoding", inp, hx(fresh), hx(second),
                                       "after an in-place change the list serializes to the encoding of its earlier content")
                    continue
                if kw_cmd is not None:
                    try:
                        again = cls(**kw_cmd).to_frame().hl_packet.serialize()
                        kw2 = dict(kw_cmd); kw2[p.name] = T(list(v))
                        want = cls(**kw2).to_frame().hl_packet.serialize()
                        if again != want:
                            ctx.counterexample("list-stale-encoding", dict(inp, command=cls.__qualname__), hx(want)[:80], hx(again)[:80],
                                               "a command built with a list that was changed in place carries the list's earlier content")
                    except Exception:
                        pass


def run_structlists(ctx):
    """Lists whose items are C structs, under both alignment modes: the list codecs hand `align` down to the
    items.  Expected bytes = length header ++ the Lean struct encoding of every item (`cenc`)."""
    import zigpy_zboss.types.basic as zb
    import zigpy.types as zt
    r = ctx.rng
    lines, metas = [], []
    for _ in range(ctx.scale(40, 1200)):
        ty, cls = rand_struct(r, r.choice([0, 1, 1, 2]))
        n = r.choice([0, 1, 2, 3, 4])
        _counter[0] += 1
        kind = r.choice(["lv", "fixed", "greedy"])
        if kind == "lv":
            L = type("VList%d" % _counter[0], (zb.LVList,), {}, item_type=cls, length_type=zt.uint8_t)
        elif kind == "fixed":
            L = type("VList%d" % _counter[0], (zb.FixedList,), {}, item_type=cls, length=n)
        else:
            L = type("VList%d" % _counter[0], (zb.CompleteList,), {}, item_type=cls)
        for al in (False, True):
            items = [rand_cval(r, cls) for _ in range(n)]
            val = L([v for _, v in items])
            raw = val.serialize(align=al)
            for vs, _ in items:
                lines.append("cenc %d %s %s" % (al, ty, vs))
            metas.append((ty, cls, kind, L, al, items, val, raw))
    ans = ctx.driver.ask(lines) if ctx.driver else None
    pos = 0
    for ty, cls, kind, L, al, items, val, raw in metas:
        inp = dict(list=kind, item=ty, align=al, values=[vs for vs, _ in items])
        isz = cls.get_size(align=al)
        ctx.case((kind, ty, al, raw), nontrivial=len(items) > 0 and cls.get_size(align=True) != cls.get_size(align=False),
                 sample=dict(list=kind, item=ty, align=al, n=len(items), bytes=hx(raw)[:50]))
        ctx.count("structlist:%s,align=%d" % (kind, al))
        if ans:
            parts = ans[pos:pos + len(items)]
            pos += len(items)
            if all(x.startswith("ok ") for x in parts):
                want = (bytes([len(items)]) if kind == "lv" else b"") + b"".join(
                    bytes.fromhex(x[3:]) if x[3:] != "-" else b"" for x in parts)
                if want != raw:
                    ctx.mismatch("structlist-enc", inp, hx(want), hx(raw))
        suffix = b"" if kind == "greedy" else bytes(r.getrandbits(8) for _ in range(r.choice([0, 1, 3])))
        try:
            back, rest = L.deserialize(raw + suffix, align=al)
            if list(back) != list(val) or rest != suffix:
                ctx.counterexample("structlist-not-inverse", inp, hx(raw), "%r rest=%s" % (list(back), hx(rest)),
                                   "list of structs: decode(encode(v, align)+suffix, align) != (v, suffix)")
        except ValueError as ex:
            ctx.counterexample("structlist-not-inverse", inp, hx(raw), "ValueError: %s" % ex,
                               "list of structs rejects its own encoding")
        hdr = 1 if kind == "lv" else 0
        for cut in range(len(raw)):
            if kind == "greedy" and isz and (cut - hdr) % isz == 0:
                continue          # a shorter list of whole items: a valid value of a greedy list
            try:
                b2, r2 = L.deserialize(raw[:cut], align=al)
                ctx.counterexample("structlist-truncation-accepted", dict(inp, cut=cut), "ValueError",
                                   "%r rest=%s" % (list(b2), hx(r2)), "truncated list of structs accepted")
                break
            except ValueError:
                pass


def run_nvram(ctx):
    import zigpy.types as zt
    from zigpy_zboss.types import nvids
    r = ctx.rng

    def rec_of(S):
        return [extract_commands.scalar_of(f.type) for f in S.fields]

    def recstr(rec):
        return "[" + ",".join({"uint": "u", "sint": "s", "blob": "o"}[k] + str(n) for k, n in rec) + "]"
    hdr, rec, ent = rec_of(nvids.NwkAddrMapHeader), rec_of(nvids.NwkAddrMapRecord), rec_of(nvids.ApsSecureEntry)
    eidx = [f.name for f in nvids.NwkAddrMapHeader.fields].index("entry_count")
    lines, metas = [], []
    for _ in range(ctx.scale(30, 600)):
        n = r.choice([0, 1, 2, 5])
        recs = [nvids.NwkAddrMapRecord(ieee_addr=gen.gen(zt.EUI64, r), nwk_addr=zt.NWK(r.getrandbits(16)), index=r.getrandbits(8),
                                       redirect_type=r.getrandbits(8), redirect_ref=r.getrandbits(8), _align=zt.uint24_t(0)) for _ in range(n)]
        raw = nvids.DSNwkAddrMap(recs).serialize() + bytes(r.getrandbits(8) for _ in range(r.choice([0, 3])))
        lines.append("nvaddr %s %s %d %s" % (recstr(hdr), recstr(rec), eidx, hx(raw)))
        metas.append(("addr", recs, raw))
        keys = [nvids.ApsSecureEntry(ieee_addr=gen.gen(zt.EUI64, r), key=gen.gen(zt.KeyData, r), _unknown_1=r.getrandbits(32)) for _ in range(n)]
        body = b"".join(k.serialize() for k in keys)
        raw2 = (len(body) + 4).to_bytes(2, "little") + bytes(r.getrandbits(8) for _ in range(4)) + body
        raw2 += bytes(r.getrandbits(8) for _ in range(r.choice([0, 3])))
        lines.append("nvaps %s %s" % (recstr(ent), hx(raw2)))
        metas.append(("aps", keys, raw2))
        cut = r.randrange(0, max(len(raw2) - 3, 1))
        lines.append("nvaps %s %s" % (recstr(ent), hx(raw2[:cut])))
        metas.append(("apscut", keys, raw2[:cut]))
    # strictness of the address map on short input: no strict prefix of a complete dataset decodes (the filler bytes at
    # the end of the header and of every record are part of the layout)
    for n in (0, 1, 2, 3):
        recs = [nvids.NwkAddrMapRecord(ieee_addr=gen.gen(zt.EUI64, r), nwk_addr=zt.NWK(r.getrandbits(16)), index=r.getrandbits(8),
                                       redirect_type=r.getrandbits(8), redirect_ref=r.getrandbits(8), _align=zt.uint24_t(0)) for _ in range(n)]
        raw = nvids.DSNwkAddrMap(recs).serialize()
        for cut in range(len(raw)):
            ctx.case(("addrcut", n, cut, raw[:cut]), nontrivial=cut > 0)
            ctx.count("nvram:addr-prefix")
            try:
                back, rest = nvids.DSNwkAddrMap.deserialize(raw[:cut])
            except ValueError:
                continue
            except Exception as ex:  # noqa
                ctx.counterexample("nvram-prefix-raises-other", dict(records=n, bytes=hx(raw), cut=cut), "ValueError", type(ex).__name__,
                                   "a dataset cut short raises something else than ValueError")
                continue
            ctx.counterexample("nvram-prefix-accepted", dict(records=n, bytes=hx(raw), cut=cut), "ValueError",
                               "%d record(s), rest=%s" % (len(back), hx(rest)), "an address-map dataset cut short is decoded")
    ans = ctx.driver.ask(lines) if ctx.driver else [None] * len(lines)
    for (kind, recs, raw), a in zip(metas, ans):
        T = nvids.DSNwkAddrMap if kind == "addr" else nvids.DSApsSecureKeys
        S = nvids.NwkAddrMapRecord if kind == "addr" else nvids.ApsSecureEntry
        rec_d = rec if kind == "addr" else ent
        ctx.case((kind, raw), nontrivial=len(recs) > 0, sample=dict(dataset=T.__name__, records=len(recs), bytes=hx(raw)[:60]))
        ctx.count("nvram:" + kind)
        try:
            back, rest = T.deserialize(raw)
            rows = ";".join(",".join(codecio._sv(st, getattr(x, f.name)) for st, f in zip(rec_d, S.fields)) for x in back)
            impl = "ok r[%s] rest=%s" % (rows, hx(rest))
            if kind != "apscut" and list(back) != list(recs):
                ctx.counterexample("nvram-parse", dict(dataset=T.__name__, bytes=hx(raw)), len(recs), len(back),
                                   "NVRAM dataset parsed from the read layout does not contain exactly the stored records")
        except ValueError:
            impl = "err valueError"
            if kind != "apscut":
                ctx.counterexample("nvram-parse", dict(dataset=T.__name__, bytes=hx(raw)), "parsed", "ValueError", "NVRAM dataset rejected")
        if a is not None and a != impl:
            ctx.mismatch("nvram-" + kind, dict(dataset=T.__name__, bytes=hx(raw)), a, impl)


def run(ctx):
    ctx.rule = ("(a) 27 wire types x generated values (integer boundaries, empty/short/long lists) x random suffix x "
                "every truncation point; (b) random CStruct definitions (1..5 fields, nesting depth <= 3, 9 leaf types) "
                "x both alignment modes x a random value, suffix and cut; (c) DSNwkAddrMap / DSApsSecureKeys datasets "
                "of 0..5 records in the read layout; non-trivial as noted per case; distinct by bytes")
    run_wire(ctx)
    run_cstruct(ctx)
    run_mutation(ctx)
    run_list_mutation(ctx)
    run_structlists(ctx)
    run_nvram(ctx)


def search(ctx):
    return None


def replay(ctx, rep):
    print(rep.get("what")); print(rep.get("input")); print("expected", rep.get("expected")); print("observed", rep.get("observed"))
    return 1
