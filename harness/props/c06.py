"""C06 - each accepted data frame is acknowledged once, with its own sequence number.

Tie: same `rx` correspondence as C01 (writes and hand-ups interleaved in one log).
Observation checker: the implementation's log must be exactly the shape of the theorem
`C06_log_shape`, computed from the Lean whole-stream parse (`offline`): per accepted data frame
one ACK (built here by hand from the link format) carrying the frame's sequence number, then the
hand-up; nothing for ACK frames and rejected input - under every chunking, with the handler raising.
"""
import rxworld
import streams
from common import hx

ASSUMPTIONS = ["the upper-layer handler does not re-enter the protocol object"]


def expected_log(offline_ans, transport=True):
    body = offline_ans.rsplit(" rem=", 1)[0]
    out = []
    if body == ".":
        return out
    for fr in body.split(","):
        ll = int(fr.split(" ")[0][3:])
        flags = (ll >> 40) & 0xFF
        if flags & 1:
            continue
        if transport:
            out.append("W" + hx(streams.ack((flags >> 2) & 3)))
        if not fr.endswith("hl=none"):
            out.append("D" + fr)
    return out


def flat(outs):
    r = []
    for o in outs:
        if o != ".":
            r += o.split(",")
    return r


def run(ctx):
    r = ctx.rng
    ctx.rule = ("streams as in C01 biased to data frames of every sequence number / flag combination, duplicates "
                "(retransmissions), ACKs and corrupted frames, under whole / byte-wise / single-cut / random chunkings, "
                "with the handler raising at random frame positions; non-trivial = at least one accepted data frame "
                "and one rejected element or an ACK; distinct by (stream, chunk sizes, raise positions)")
    for si in range(ctx.scale(80, 2500)):
        labels, s = streams.stream(r, nmax=8, hostile=r.random() < 0.7)
        chunkings = list(streams.chunkings(r, s, ctx.scale(6, 20), ctx.scale(2, 6)))
        lines = ["offline " + hx(s)]
        metas = []
        for label, chunks in chunkings:
            raise_at = tuple(sorted(set(r.randrange(0, 6) for _ in range(r.randrange(0, 4)))))
            outs, final, raised = rxworld.session(chunks, 0, True, False, raise_at)
            lines.append(rxworld.rx_line(chunks))
            metas.append((label, chunks, outs, final, raised, raise_at))
        ans = ctx.driver.ask(lines) if ctx.driver else None
        exp = expected_log(ans[0]) if ans else None
        for k, (label, chunks, outs, final, raised, raise_at) in enumerate(metas):
            inp = dict(stream=hx(s), elements=labels, chunking=label, chunks=[hx(c) for c in chunks],
                       handler_raises_at=list(raise_at))
            log = flat(outs)
            nd = sum(1 for x in log if x.startswith("D"))
            ctx.case((s, tuple(len(c) for c in chunks), raise_at), nontrivial=nd > 0 and len(labels) > 1,
                     sample=dict(elements=labels, chunking=label, handler_raises_at=list(raise_at),
                                 log=[x[:40] for x in log[:6]]))
            ctx.count("data-frames=%s" % min(nd, 4))
            ctx.count("handler-raises=%d" % len(raise_at))
            if raised:
                ctx.counterexample("rx-raised", inp, "no exception", raised, "data_received raised %s" % raised)
            # direct reading of the property on the implementation's own log
            for i, x in enumerate(log):
                if x.startswith("D"):
                    ll = int(x.split(" ")[0][4:])
                    want = "W" + hx(streams.ack((ll >> 42) & 3))
                    if i == 0 or log[i - 1] != want:
                        ctx.counterexample("ack-missing-or-wrong", inp, want, log[i - 1] if i else None,
                                           "a frame was handed up without its own acknowledgement written just before")
                if x.startswith("W") and (i + 1 >= len(log) or not log[i + 1].startswith("D")):
                    ctx.counterexample("ack-without-frame", inp, "W followed by D", log[i:i + 2],
                                       "an acknowledgement was written that is not followed by the hand-up of its frame")
            if ans is None:
                continue
            if log != exp:
                ctx.counterexample("log-shape", inp, [e[:60] for e in exp], [e[:60] for e in log],
                                   "writes/hand-ups are not exactly one ACK + one hand-up per accepted data frame in stream order")
            impl = " ".join(outs) + " | " + final
            if rxworld.mask_like(ans[1 + k], impl) != impl:
                ctx.mismatch("rx", inp, ans[1 + k], impl)


def search(ctx):
    return None


def replay(ctx, rep):
    from props import c01
    return c01.replay(ctx, rep)
