"""C06 - each accepted data frame is acknowledged once, with its own sequence number.

Tie: same `rx` correspondence as C01 (writes and hand-ups interleaved in one log).
Observation checker: the implementation's log must be exactly the shape of the theorem
`C06_log_shape`, computed from the Lean whole-stream parse (`offline`): per accepted data frame
one ACK (built here by hand from the link format) carrying the frame's sequence number, then the
hand-up; nothing for ACK frames and rejected input - under every chunking, with the handler raising.
"""
import rxworld
import streams
from common import hx

ASSUMPTIONS = ["the upper-layer handler does not re-enter the protocol object, except that it may close it (as ZBOSS.close() does)"]


def expected_log(offline_ans, transport=True):
    body = offline_ans.rsplit(" rem=", 1)[0]
    out = []
    if body == ".":
        return out
    for fr in body.split(","):
        ll = int(fr.split(" ")[0][3:])
        flags = (ll >> 40) & 0xFF
        if flags & 1:
            continue
        if transport:
            out.append("W" + hx(streams.ack((flags >> 2) & 3)))
        if not fr.endswith("hl=none"):
            out.append("D" + fr)
    return out


def flat(outs):
    r = []
    for o in outs:
        if o != ".":
            r += o.split(",")
    return r


def handler_behaviours(ctx):
    """Several data frames in one read while the upper layer (a) is cancelled inside a hand-up - `CancelledError` is not
    an `Exception`, it leaves the receive entry point - or (b) closes the port from inside a hand-up.  Whatever happens,
    no frame may be handed up without its own acknowledgement written just before, and in case (a) the frames behind the
    interrupted one are still acknowledged and handed up, once each, when the receiver is entered again."""
    r = ctx.rng
    for k in range(ctx.scale(60, 600)):
        n = r.randrange(2, 6)
        seqs = [r.randrange(0, 4) for _ in range(n)]
        frames = [streams.command_frame(r, seq=q) for q in seqs]
        s = b"".join(frames)
        j = r.randrange(0, n)
        kind = "cancelled" if k % 2 == 0 else "closes"
        p, log = rxworld.make(0, True, False, (), reset_flag=(k % 4 == 3))
        if kind == "cancelled":
            p._verif_api.base_raise_at = {j}
        else:
            p._verif_api.close_at = {j}
        # (b): all frames in the read in which the port is closed - a closed port acknowledges nothing in later reads
        cut = r.randrange(0, len(s) + 1) if (r.random() < 0.5 and kind == "cancelled") else len(s)
        raised = []
        for chunk in (s[:cut], s[cut:], b"", b""):
            try:
                p.data_received(chunk)
            except BaseException as ex:  # noqa
                raised.append(type(ex).__name__)
        inp = dict(frames=[hx(f) for f in frames], sequence_numbers=seqs, handler=kind, at_frame=j, first_read=cut)
        ctx.case(("handler", s, j, kind, cut), nontrivial=True, sample=dict(inp, log=[x[:30] for x in log[:8]], raised=raised))
        ctx.count("handler-" + kind)
        bad = None
        for i, x in enumerate(log):
            if x.startswith("D"):
                ll = int(x.split(" ")[0][4:])
                want = "W" + hx(streams.ack((ll >> 42) & 3))
                if i == 0 or log[i - 1] != want:
                    bad = ("ack-missing-or-wrong", want, log[i - 1][:40] if i else None,
                           "a frame was handed up without its own acknowledgement written just before")
                    break
        nd = sum(1 for x in log if x.startswith("D"))
        if bad is None and kind == "cancelled":
            if any(e != "CancelledError" for e in raised):
                bad = ("rx-raised", "only the cancellation propagates", raised, "data_received raised something else than the cancellation")
            elif nd != n:
                bad = ("frames-lost-after-cancellation", "%d frames acknowledged and handed up" % n, "%d" % nd,
                       "frames that were in the same read as a cancelled hand-up were consumed but never acknowledged / handed up")
        if bad is None and kind == "closes" and raised:
            bad = ("rx-raised", "no exception", raised, "data_received raised after the handler closed the port")
        if bad:
            ctx.counterexample(bad[0], inp, bad[1], bad[2], bad[3])


def lifecycle_and_size(ctx):
    """(a) The port closed and opened again on the same protocol object, data frames of every sequence number before and
    after: each is acknowledged with its own number (nothing of the previous connection's acknowledgements survives).
    (b) Checksum-valid data frames whose body is longer than the 247 bytes the host itself sends (248 .. 1000): accepted
    frames like any other - acknowledged, then handed up."""
    r = ctx.rng

    def feed(p, log, b):
        mark = len(log)
        try:
            p.data_received(bytes(b))
        except BaseException as ex:  # noqa
            log.append("RAISED:" + type(ex).__name__)
        return log[mark:]

    def judge(inp, got, seq, what):
        want = "W" + hx(streams.ack(seq))
        ok = len(got) == 2 and got[0] == want and got[1].startswith("D")
        if not ok:
            ctx.counterexample("ack-missing-or-wrong", inp, [want, "D..."], [g[:40] for g in got], what)

    for before in ([1], [1, 2], [3], [2, 3, 1], [0]):
        for after in ([0], [0, 1], [2], [before[-1]], [3, 0]):
            p, log = rxworld.make(0, True, False, (), False)
            hist = []
            for phase, seqs in (("before", before), ("after", after)):
                if phase == "after":
                    p.close()
                    p.connection_made(rxworld.RecTransport(log))
                for q in seqs:
                    f = streams.command_frame(r, q)
                    got = feed(p, log, f)
                    hist.append((phase, q))
                    ctx.case(("reconnect", tuple(before), tuple(after), len(hist)), sample=dict(history=hist[-4:]))
                    ctx.count("reopened-port")
                    judge(dict(scenario="port closed and opened again", frames_before=before, frames_after=after, at=list(hist[-1])),
                          got, q, "after the port was closed and opened again a data frame is not acknowledged with its own sequence number")
    # theorem `C06_reopened_port` on the implementation: whatever a connection left behind (numbers advanced by ACKs and data
    # frames, the beginning of a frame in the buffer), after close() + connection_made() the log of a stream is the log a
    # fresh receiver gives for it (that one is tied to the model by the `rx` comparison below); closed, nothing is written
    for j in range(ctx.scale(25, 200)):
        p, log = rxworld.make(r.randrange(4), True, False, (), False)
        feed(p, log, streams.command_frame(r, r.randrange(4)))
        if r.random() < 0.6:
            feed(p, log, streams.command_frame(r, r.randrange(4))[:r.randrange(1, 9)])     # leaves a partial frame behind
        labels, s2 = streams.stream(r, nmax=5, hostile=r.random() < 0.5)
        chunks = [c for _l, cs in list(streams.chunkings(r, s2, 2, 1))[:1] for c in cs] or [s2]
        p.close()
        closed_log = feed(p, log, streams.command_frame(r, r.randrange(4)))
        p.close()
        p.connection_made(rxworld.RecTransport(log))
        got = [x for c in chunks for x in feed(p, log, c)]
        outs, _final, _raised = rxworld.session(chunks)
        fresh = flat(outs)
        inp = dict(scenario="stream after close() + connection_made()", stream=hx(s2), elements=labels, chunks=[hx(c) for c in chunks])
        ctx.case(("reopen-stream", j), nontrivial=len(fresh) > 0, sample=dict(elements=labels, chunks=len(chunks), log=[x[:30] for x in got[:4]]))
        ctx.count("reopened-port-stream")
        if got != fresh:
            ctx.counterexample("reopened-differs-from-fresh", inp, [x[:50] for x in fresh], [x[:50] for x in got],
                               "after close() and connection_made() the receiver's log differs from a fresh receiver's on the same stream")
        if any(not x.startswith("D") for x in closed_log):
            ctx.counterexample("closed-port-wrote", inp, "hand-up only", [x[:50] for x in closed_log],
                               "something other than a hand-up happened for a data frame received while the port is closed")
    for n in [248, 249, 250, 254, 255, 256, 300, 500, 1000] + [r.randrange(248, 1200) for _ in range(ctx.scale(6, 60))]:
        for flags in (0xC0, 0x40, 0x00, 0x80):
            q = r.randrange(4)
            f = streams.raw_frame(flags | (q << 2), bytes(r.getrandbits(8) for _ in range(n)))
            p, log = rxworld.make(0, True, False, (), False)
            got = feed(p, log, f)
            ctx.case(("long-body", n, flags, q), sample=dict(body_len=n, flags=flags, seq=q))
            ctx.count("body-longer-than-247")
            judge(dict(scenario="data frame with a body longer than 247 bytes", body_len=n, flags=flags, seq=q, frame=hx(f)[:60]),
                  got, q, "a checksum-valid data frame with a long body is not acknowledged and handed up")


def run(ctx):
    handler_behaviours(ctx)
    lifecycle_and_size(ctx)
    r = ctx.rng
    ctx.rule = ("streams as in C01 biased to data frames of every sequence number / flag combination, duplicates "
                "(retransmissions), ACKs and corrupted frames, under whole / byte-wise / single-cut / random chunkings, "
                "with the handler raising at random frame positions; non-trivial = at least one accepted data frame "
                "and one rejected element or an ACK; distinct by (stream, chunk sizes, raise positions)")
    for si in range(ctx.scale(80, 2500)):
        labels, s = streams.stream(r, nmax=8, hostile=r.random() < 0.7)
        chunkings = list(streams.chunkings(r, s, ctx.scale(6, 20), ctx.scale(2, 6)))
        lines = ["offline " + hx(s)]
        metas = []
        for label, chunks in chunkings:
            raise_at = tuple(sorted(set(r.randrange(0, 6) for _ in range(r.randrange(0, 4)))))
            outs, final, raised = rxworld.session(chunks, 0, True, False, raise_at)
            lines.append(rxworld.rx_line(chunks))
            metas.append((label, chunks, outs, final, raised, raise_at))
        ans = ctx.driver.ask(lines) if ctx.driver else None
        exp = expected_log(ans[0]) if ans else None
        for k, (label, chunks, outs, final, raised, raise_at) in enumerate(metas):
            inp = dict(stream=hx(s), elements=labels, chunking=label, chunks=[hx(c) for c in chunks],
                       handler_raises_at=list(raise_at))
            log = flat(outs)
            nd = sum(1 for x in log if x.startswith("D"))
            ctx.case((s, tuple(len(c) for c in chunks), raise_at), nontrivial=nd > 0 and len(labels) > 1,
                     sample=dict(elements=labels, chunking=label, handler_raises_at=list(raise_at),
                                 log=[x[:40] for x in log[:6]]))
            ctx.count("data-frames=%s" % min(nd, 4))
            ctx.count("handler-raises=%d" % len(raise_at))
            if raised:
                ctx.counterexample("rx-raised", inp, "no exception", raised, "data_received raised %s" % raised)
            # direct reading of the property on the implementation's own log
            for i, x in enumerate(log):
                if x.startswith("D"):
                    ll = int(x.split(" ")[0][4:])
                    want = "W" + hx(streams.ack((ll >> 42) & 3))
                    if i == 0 or log[i - 1] != want:
                        ctx.counterexample("ack-missing-or-wrong", inp, want, log[i - 1] if i else None,
                                           "a frame was handed up without its own acknowledgement written just before")
                if x.startswith("W") and (i + 1 >= len(log) or not log[i + 1].startswith("D")):
                    ctx.counterexample("ack-without-frame", inp, "W followed by D", log[i:i + 2],
                                       "an acknowledgement was written that is not followed by the hand-up of its frame")
            if ans is None:
                continue
            if log != exp:
                ctx.counterexample("log-shape", inp, [e[:60] for e in exp], [e[:60] for e in log],
                                   "writes/hand-ups are not exactly one ACK + one hand-up per accepted data frame in stream order")
            impl = " ".join(outs) + " | " + final
            if rxworld.mask_like(ans[1 + k], impl) != impl:
                ctx.mismatch("rx", inp, ans[1 + k], impl)


def search(ctx):
    return None


def replay(ctx, rep):
    from props import c01
    return c01.replay(ctx, rep)
