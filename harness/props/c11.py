"""C11 - any request reaches the NCP intact, fragments contiguous, each awaiting its ACK.

Tie: real `ZBOSS.request` tasks (1..4 fragments, blocking and non-blocking) on real
`ZbossNcpProtocol` under a virtual clock, events at quiescent points, vs the Lean `Host` model
(`host` op): ordered wire writes (request, fragment index, stamped sequence number), ACK writes,
close / loss notifications, and the set of completions per step, plus the clock.
Observation checker: every write is a well-formed frame; a reference NCP (first..last concatenation)
receives exactly each completely transmitted request's header + parameter bytes; fragments of one
message are never interleaved with another's; no request returns before its last fragment went out.
"""
import priv
import hostdrive

ASSUMPTIONS = ["events arrive at quiescent points of the event loop; timer ties are avoided by construction "
               "(per-request timeouts differ by multiples of 13 ms)"]


def run_generic(ctx, monitor, n, nsteps=30, **kw):
    r = ctx.rng
    traces = []
    for k in range(n):
        # every fifth schedule is built around the life cycle of the connection (close / loss / reset, connect again)
        max_live = 3
        if k % 5 == 4:
            sched = hostdrive.lifecycle_schedule(r, kw.get("kinds", "GPZDWBEF"))
        elif k % 40 == 7:
            # one long history per 40 schedules: ~300 requests in a row (counters wrap, tables fill)
            sched = hostdrive.long_schedule(r, 300, kw.get("kinds", "GPZDWBEF"))
        elif k % 10 == 3:
            # many requests at once
            max_live = 12
            sched = hostdrive.gen_schedule(r, 60, weights=dict(start=8, ack=8, rsp=4, tick=1.5, cancel=1, badack=0.5, close=0.02, lost=0.02))
        else:
            sched = hostdrive.gen_schedule(r, nsteps, **kw)
        tr = hostdrive.run_schedule(r, sched, max_live=max_live)
        labels = set(l.split(":")[0] for l in tr.labels)
        multi = sum(1 for q in tr.reqs.values() if q["nfrags"] > 1)
        ctx.case(tuple(tr.tokens), nontrivial=len(tr.reqs) >= 2 and len(labels) >= 4,
                 sample=dict(events=tr.tokens[:14], steps=tr.steps[:14]))
        for l in tr.labels:
            ctx.count("event:" + l.split(":")[0])
        ctx.count("requests=%d,multi-fragment=%d" % (min(len(tr.reqs), 6), min(multi, 4)))
        if tr.raised:
            ctx.counterexample("rx-raised", dict(events=tr.tokens), "no exception", tr.raised[0], "data_received raised")
        monitor(ctx, tr)
        traces.append(tr)
    hostdrive.compare(ctx, traces)


def reconnect_scenarios(ctx):
    """close() in the middle of a fragmented message, connect() again on the same object while the interrupted request
    still sits in its acknowledgement wait, then a new fragmented request: the fragments of the new message are written
    contiguously - a leftover fragment of the interrupted request may come before or after them, never in between.
    Implementation-side observation (connect / close + connect are not events of the model)."""
    import hostworld
    import streams
    K = hostworld.kinds()
    r = ctx.rng
    for n in range(ctx.scale(24, 240)):
        w = hostworld.HostWorld()
        try:
            first_kind = r.choice("WBD")
            acks_before = r.randrange(0, 3)
            w.start(1, K[first_kind][0](1), 9.0)
            for _ in range(acks_before):
                w.rx(streams.ack(priv.pack_seq(w.p)))
            hist = ["start %s" % first_kind] + ["ACK"] * acks_before
            if r.random() < 0.3:
                w.start(2, K[r.choice("DWG")][0](2), 9.5); hist.append("start second")
            w.close(); hist.append("close")
            if r.random() < 0.5:
                w.loop.nudge(r.choice([0.2, 0.5, 0.8]))
            m0 = w.mark()
            w.reconnect(); hist.append("connect")
            nxt = 3
            w.start(nxt, K[r.choice("WBDF")][0](nxt), 11.0); hist.append("start new")
            for step in range(40):
                if all(tk.done() for tk in w.tasks.values()):
                    break
                x = r.random()
                if x < 0.5:
                    w.rx(streams.ack(priv.pack_seq(w.p))); hist.append("ACK")
                elif x < 0.6 and nxt < 5:
                    nxt += 1
                    w.start(nxt, K[r.choice("DWZ")][0](nxt), 11.0 + nxt); hist.append("start another")
                else:
                    if not w.tick():
                        break
                    hist.append("timer")
            # contiguity on the new connection
            cur, bad, done = None, None, set()
            for e in w.log[m0:]:
                if e.startswith("D") and "=" in e:
                    i = int(e[1:].split("=")[0])
                    done.add(i)
                    if cur == i:
                        cur = None
                elif e.startswith("W") and "#" in e:
                    rid = int(e.rsplit("#", 1)[1])
                    raw = bytes.fromhex(e[1:].split("#")[0])
                    if raw[5] & 1 or rid == 0:
                        continue
                    first, last = bool(raw[5] & 0x40), bool(raw[5] & 0x80)
                    if cur is not None and cur != rid and cur not in done and bad is None:
                        bad = "a frame of request %d is written between the fragments of request %d" % (rid, cur)
                    if first and not last:
                        cur = rid
                    elif last and cur == rid:
                        cur = None
            inp = dict(history=hist)
            ctx.case(("reconnect", tuple(hist)), nontrivial=True,
                     sample=dict(history=hist[:14], writes=[x[-2:] for x in w.log[m0:] if x.startswith("W") and "#" in x][:12]))
            ctx.count("close+connect-scenario")
            if "RECONNECTED" not in w.log:
                ctx.count("close+connect-scenario:connect-failed")
            if bad:
                ctx.counterexample("fragments-interleaved-after-reconnect", inp, "fragments of one message contiguous", bad,
                                   "after close() + connect() the fragments of a message are interleaved with another request's frame")
        finally:
            w.shutdown()


def scale_scenarios(ctx):
    """a message of two dozen fragments whose acknowledgements all fail to come (each wait expires after ACK_TIMEOUT), with
    other fragmented requests waiting behind it for as long as that takes - and the same with the acknowledgements
    arriving: the waiting requests get their turn afterwards, nothing is interleaved"""
    out = []
    for waiting in ("D", "W", "DW"):
        for how in ("tick", "ack", "mixed"):
            s = [("start", 0.0, "H", 60000)] + [("start", 0.0, k, 50000) for k in waiting]
            for j in range(34):
                ev = "tick" if how == "tick" or (how == "mixed" and j % 3) else "ack"
                s.append((ev, 0.0, "H", 0))
            out.append(s)
    return out


def run(ctx):
    reconnect_scenarios(ctx)
    traces = []
    for s in scale_scenarios(ctx):
        tr = hostdrive.run_schedule(ctx.rng, s, max_live=6)
        ctx.case(tuple(tr.tokens), nontrivial=True, sample=dict(events=tr.tokens[:8], steps=tr.steps[:8]))
        ctx.count("scale-scenario")
        hostdrive.monitor_c11(ctx, tr)
        traces.append(tr)
    hostdrive.compare(ctx, traces)
    ctx.rule = ("random quiescent-point schedules of 30 events + drain: request starts of 6 kinds (1, 2, 3 and 4 fragments; "
                "blocking and non-blocking; <= 3 live), matching / wrong ACKs, responses, timer expiry, cancellation, rare "
                "close / loss; non-trivial = >= 2 requests and >= 4 event kinds; distinct by event list")
    run_generic(ctx, hostdrive.monitor_c11, ctx.scale(300, 3000), weights=dict(start=5, ack=6, rsp=2, tick=2, cancel=1, badack=1, close=0.1, lost=0.05))


def search(ctx):
    return None


def replay(ctx, rep):
    print(rep.get("what")); print("input:", rep.get("input")); print("expected", rep.get("expected"), "observed", rep.get("observed"))
    return 1
