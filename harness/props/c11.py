"""C11 - any request reaches the NCP intact, fragments contiguous, each awaiting its ACK.

Tie: real `ZBOSS.request` tasks (1..4 fragments, blocking and non-blocking) on real
`ZbossNcpProtocol` under a virtual clock, events at quiescent points, vs the Lean `Host` model
(`host` op): ordered wire writes (request, fragment index, stamped sequence number), ACK writes,
close / loss notifications, and the set of completions per step, plus the clock.
Observation checker: every write is a well-formed frame; a reference NCP (first..last concatenation)
receives exactly each completely transmitted request's header + parameter bytes; fragments of one
message are never interleaved with another's; no request returns before its last fragment went out.
"""
import hostdrive

ASSUMPTIONS = ["events arrive at quiescent points of the event loop; timer ties are avoided by construction "
               "(per-request timeouts differ by multiples of 13 ms)"]


def run_generic(ctx, monitor, n, nsteps=30, **kw):
    r = ctx.rng
    traces = []
    for _ in range(n):
        tr = hostdrive.run_schedule(r, hostdrive.gen_schedule(r, nsteps, **kw))
        labels = set(l.split(":")[0] for l in tr.labels)
        multi = sum(1 for q in tr.reqs.values() if q["nfrags"] > 1)
        ctx.case(tuple(tr.tokens), nontrivial=len(tr.reqs) >= 2 and len(labels) >= 4,
                 sample=dict(events=tr.tokens[:14], steps=tr.steps[:14]))
        for l in tr.labels:
            ctx.count("event:" + l.split(":")[0])
        ctx.count("requests=%d,multi-fragment=%d" % (min(len(tr.reqs), 6), min(multi, 4)))
        if tr.raised:
            ctx.counterexample("rx-raised", dict(events=tr.tokens), "no exception", tr.raised[0], "data_received raised")
        monitor(ctx, tr)
        traces.append(tr)
    hostdrive.compare(ctx, traces)


def run(ctx):
    ctx.rule = ("random quiescent-point schedules of 30 events + drain: request starts of 6 kinds (1, 2, 3 and 4 fragments; "
                "blocking and non-blocking; <= 3 live), matching / wrong ACKs, responses, timer expiry, cancellation, rare "
                "close / loss; non-trivial = >= 2 requests and >= 4 event kinds; distinct by event list")
    run_generic(ctx, hostdrive.monitor_c11, ctx.scale(300, 3000), weights=dict(start=5, ack=6, rsp=2, tick=2, cancel=1, badack=1, close=0.1, lost=0.05))


def search(ctx):
    return None


def replay(ctx, rep):
    print(rep.get("what")); print("events:", (rep.get("input") or {}).get("events")); print("expected", rep.get("expected"), "observed", rep.get("observed"))
    return 1
