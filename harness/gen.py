"""Type-directed generators for values of every wire type found in the 145
command schemas, and for whole commands."""
import enum

import zigpy.types as zt
import zigpy.zdo.types as zdo_t

import zigpy_zboss.types as t
from zigpy_zboss import commands as c
from zigpy_zboss.types import basic


def all_command_classes():
    out = []
    for grp in c.ALL_COMMANDS:
        for cmd in grp:
            for k in (cmd.Req, cmd.Rsp, cmd.Ind):
                if k is not None:
                    out.append(k)
    return out


def int_bounds(T):
    bits = T._size * 8
    if T._signed:
        return -(1 << (bits - 1)), (1 << (bits - 1)) - 1
    return 0, (1 << bits) - 1


_INTS = None


def _foreign(items, item_type, rnd):
    """Now and then hand the list its items wrapped in a *different* fixed-width integer type (same values): the
    list codec has to bring them to its own item width."""
    global _INTS
    if _INTS is None:
        _INTS = [zt.uint8_t, zt.uint16_t, zt.uint32_t, zt.int8s, zt.int16s, zt.int32s]
    if not (isinstance(item_type, type) and issubclass(item_type, zt.FixedIntType)) or issubclass(item_type, enum.Enum):
        return items
    if not items or rnd.random() > 0.3:
        return items
    out = []
    for v in items:
        cands = [T2 for T2 in _INTS if not issubclass(item_type, T2) and not issubclass(T2, item_type)
                 and int_bounds(T2)[0] <= int(v) <= int_bounds(T2)[1]]
        out.append(rnd.choice(cands)(int(v)) if cands and rnd.random() < 0.7 else v)
    return out


def gen(T, rnd, size=None):
    """A valid value of wire type T. `size` biases list/bytes lengths."""
    def ln(choices):
        return size if size is not None else rnd.choice(choices)
    if issubclass(T, enum.Flag):
        bits = T._size * 8 if hasattr(T, "_size") else 8
        return T(rnd.choice([0, (1 << bits) - 1, rnd.getrandbits(bits)]))
    if issubclass(T, enum.Enum):
        return rnd.choice(list(T))
    if issubclass(T, zt.FixedIntType):
        lo, hi = int_bounds(T)
        return T(rnd.choice([lo, hi, 0 if lo <= 0 else lo, rnd.randint(lo, hi), rnd.randint(lo, hi)]))
    if issubclass(T, zt.EUI64):
        return T([rnd.getrandbits(8) for _ in range(8)])
    if issubclass(T, zt.KeyData):
        return T([rnd.getrandbits(8) for _ in range(16)])
    if issubclass(T, zt.LVBytes):
        return T(bytes(rnd.getrandbits(8) for _ in range(ln([0, 1, 5, 40]))))
    if issubclass(T, basic.ShortBytes):
        return T(bytes(rnd.getrandbits(8) for _ in range(ln([0, 1, 5, 40]))))
    if issubclass(T, basic.Bytes):
        return T(bytes(rnd.getrandbits(8) for _ in range(ln([0, 1, 5, 40]))))
    if issubclass(T, t.SimpleDescriptor):
        i = [rnd.getrandbits(16) for _ in range(rnd.choice([0, 1, 3]))]
        o = [rnd.getrandbits(16) for _ in range(rnd.choice([0, 1, 2]))]
        return T(endpoint=rnd.getrandbits(8), profile=rnd.getrandbits(16), device_type=rnd.getrandbits(16),
                 device_version=rnd.getrandbits(8), input_clusters_count=len(i), output_clusters_count=len(o),
                 input_clusters=i, output_clusters=o)
    if issubclass(T, (basic.LVList, basic.CompleteList)):
        return T(_foreign([gen(T._item_type, rnd) for _ in range(ln([0, 1, 3]))], T._item_type, rnd))
    if issubclass(T, basic.FixedList):
        return T(_foreign([gen(T._item_type, rnd) for _ in range(T._length)], T._item_type, rnd))
    if issubclass(T, zt.List):
        return T([gen(T._item_type, rnd) for _ in range(ln([0, 1, 4, 30]))])
    if issubclass(T, zdo_t.Neighbors):
        n = rnd.choice([0, 1, 2])
        nb = []
        for _ in range(n):
            raw = bytes(rnd.getrandbits(8) for _ in range(22))
            try:
                v, _r = zdo_t.Neighbor.deserialize(raw)
            except Exception:
                v, _r = zdo_t.Neighbor.deserialize(bytes(22))
            nb.append(v)
        return T(Entries=n + rnd.choice([0, 1]), StartIndex=rnd.choice([0, 3]), NeighborTableList=nb)
    if issubclass(T, zt.Struct):
        for _ in range(50):
            raw = bytes(rnd.getrandbits(8) for _ in range(40))
            try:
                v, rest = T.deserialize(raw)
                return v
            except Exception:
                continue
        raise RuntimeError(T)
    raise NotImplementedError(T)


def gen_cmd(cls, rnd, nopt=None, size=None):
    params = {}
    opts = [p for p in cls.schema if p.optional]
    k = rnd.randrange(len(opts) + 1) if nopt is None else nopt
    keep = set(p.name for p in opts[:k])
    for p in cls.schema:
        if p.optional and p.name not in keep:
            continue
        params[p.name] = gen(p.type, rnd, size)
    if len(params) > 1 and rnd.random() < 0.5:
        # keyword arguments in an order other than the schema's: the bytes must not depend on it
        # (the library insists on the schema order among *optional* parameters; those keep it)
        optn = set(p.name for p in opts)
        items = [kv for kv in params.items() if kv[0] not in optn]
        rnd.shuffle(items)
        params = dict(items + [kv for kv in params.items() if kv[0] in optn])
    return cls(**params)


def big_request(rnd, n, fill=None):
    """A request whose HL body is about n bytes (WriteNVRAM carries a free-size dataset); `fill` = a byte value for
    the whole dataset (default: random bytes, now and then all zero)"""
    if fill is None and rnd.random() < 0.2:
        fill = 0
    data = bytes([fill]) * n if fill is not None else bytes(rnd.getrandbits(8) for _ in range(n))
    return c.NcpConfig.WriteNVRAM.Req(TSN=rnd.getrandbits(8), DatasetCnt=1, DatasetId=t.DatasetId(1),
                                     Version=1, Dataset=t.NVRAMDataset(data))
