#!/bin/bash
# usage: harness/seedverify.sh <worktree> <patch> <demo.py>
# confirms in the scratch worktree: the 56 baseline tests still pass with the change, the demo fails with it and passes without
wt="$1"; patch="$2"; demo="$3"
T=$(mktemp -d /tmp/sv.XXXXXX)   # per run, so that several confirmations can run side by side
cd "$wt" || exit 2
git checkout -q -- . ; cp "$demo" "$wt/_demo.py"
PYTHONPATH="$wt" /venv/bin/python _demo.py >$T/clean.txt 2>&1; clean=$?
git apply "$patch" || { echo "patch does not apply"; exit 2; }
PYTHONPATH="$wt" /venv/bin/python _demo.py >$T/mut.txt 2>&1; mut=$?
PYTHONPATH="$wt" /venv/bin/python -m pytest -q -p no:cacheprovider --timeout=900 --continue-on-collection-errors --junitxml=$T/j.xml >/dev/null 2>&1
pass=$(SVJ=$T/j.xml /venv/bin/python - <<'PY'
import json, xml.etree.ElementTree as ET
b=json.load(open('/root/.vp/BASELINE.json'))
ok=set()
for tc in ET.parse(__import__('os').environ['SVJ']).iter('testcase'):
    if not any(c.tag in('failure','error','skipped') for c in tc):
        ok.add(tc.get('classname')+'::'+tc.get('name'))
print("baseline-ok" if set(b['stable_pass'])<=ok else "baseline-BROKEN:%s" % sorted(set(b['stable_pass'])-ok)[:3])
PY
)
git checkout -q -- . ; rm -f "$wt/_demo.py"; rm -rf "$T"
echo "demo clean rc=$clean, mutated rc=$mut, tests: $pass"
