"""A small universe of real command classes with small parameter domains, used
by the matching (C17) and dispatch (C12) correspondences.  Encodes commands and
patterns for the Lean driver as `<type index>:<v1>,<v2>,..` with `_` = unspecified."""
import itertools


def universe(optional=False):
    """`optional`: add the response type that has optional trailing parameters (ZDO.IeeeAddrReq.Rsp)"""
    from zigpy_zboss import commands as c
    import zigpy_zboss.types as t
    A = c.NcpConfig.GetZigbeeRole.Rsp
    B = c.NcpConfig.GetShortAddr.Rsp
    C = c.NcpConfig.GetRxOnWhenIdle.Rsp if hasattr(c.NcpConfig, "GetRxOnWhenIdle") else c.NcpConfig.GetZigbeeRole.Rsp
    sc = t.StatusCategory
    sg = t.StatusCodeGeneric
    doms = {
        A: [("TSN", [1, 2]), ("StatusCat", [sc(0)]), ("StatusCode", [sg(0), sg(1)]), ("DeviceRole", [t.DeviceRole(0), t.DeviceRole(1)])],
        B: [("TSN", [1, 2]), ("StatusCat", [sc(0)]), ("StatusCode", [sg(0)]), ("NWKAddr", [t.NWK(0x1234), t.NWK(0)])],
    }
    if optional:
        O = c.ZDO.IeeeAddrReq.Rsp
        ieee = t.EUI64.convert("00:11:22:33:44:55:66:77")
        NA = c.zdo.NWKArray
        doms[O] = [("TSN", [1]), ("StatusCat", [sc(0)]), ("StatusCode", [sg(0)]), ("RemoteDevIEEE", [ieee]),
                   ("RemoteDevNWK", [t.NWK(0x1234), t.NWK(0)]), ("NumAssocDev", [0, 1]), ("StartIndex", [0]),
                   ("AssocDevNWKList", [NA([t.NWK(7)]), NA([t.NWK(7), t.NWK(9)])])]
        return [A, B, O], doms
    return [A, B], doms


def encode(classes, cmd):
    k = classes.index(type(cmd))
    vals = []
    for p in type(cmd).schema:
        v = getattr(cmd, p.name)
        if v is None:
            vals.append("_")
        else:
            try:
                vals.append(str(int(v)))
            except (TypeError, ValueError):
                # lists and byte-like values: their wire image as one number, a leading 1 keeps empty / zero-leading apart
                vals.append(str(int.from_bytes(v.serialize() + b"\x01", "little")))
    return "%d:%s" % (k + 1, ",".join(vals) if vals else "-")


def all_patterns(cls, dom):
    """every partial command over the domain (each parameter unspecified or one of its values)"""
    names = [n for n, _ in dom]
    choices = [[None] + list(vs) for _, vs in dom]
    out = []
    for combo in itertools.product(*choices):
        kw = {n: v for n, v in zip(names, combo) if v is not None}
        try:
            out.append(cls(partial=True, **kw))
        except KeyError:
            pass            # optional parameters must be given as a prefix of their order
    return out


def all_concrete(cls, dom):
    """every complete command over the domain; optional trailing parameters present as every prefix"""
    opt = [p.name for p in cls.schema if p.optional]
    names = [n for n, _ in dom if n not in opt]
    out = []
    for combo in itertools.product(*[vs for n, vs in dom if n not in opt]):
        base = dict(zip(names, combo))
        out.append(cls(**base))
        given = [(n, vs) for n, vs in dom if n in opt]
        for k in range(1, len(given) + 1):
            for oc in itertools.product(*[vs for _, vs in given[:k]]):
                out.append(cls(**base, **dict(zip([n for n, _ in given[:k]], oc))))
    return out


def spec_matches(p, c):
    """field-wise wildcarding, written independently of the library"""
    if type(p) is not type(c):
        return False
    for prm in type(p).schema:
        e = getattr(p, prm.name)
        if e is not None and e != getattr(c, prm.name):
            return False
    return True
