"""A small universe of real command classes with small parameter domains, used
by the matching (C17) and dispatch (C12) correspondences.  Encodes commands and
patterns for the Lean driver as `<type index>:<v1>,<v2>,..` with `_` = unspecified."""
import itertools


def universe():
    from zigpy_zboss import commands as c
    import zigpy_zboss.types as t
    A = c.NcpConfig.GetZigbeeRole.Rsp
    B = c.NcpConfig.GetShortAddr.Rsp
    C = c.NcpConfig.GetRxOnWhenIdle.Rsp if hasattr(c.NcpConfig, "GetRxOnWhenIdle") else c.NcpConfig.GetZigbeeRole.Rsp
    sc = t.StatusCategory
    sg = t.StatusCodeGeneric
    doms = {
        A: [("TSN", [1, 2]), ("StatusCat", [sc(0)]), ("StatusCode", [sg(0), sg(1)]), ("DeviceRole", [t.DeviceRole(0), t.DeviceRole(1)])],
        B: [("TSN", [1, 2]), ("StatusCat", [sc(0)]), ("StatusCode", [sg(0)]), ("NWKAddr", [t.NWK(0x1234), t.NWK(0)])],
    }
    return [A, B], doms


def encode(classes, cmd):
    k = classes.index(type(cmd))
    vals = []
    for p in type(cmd).schema:
        v = getattr(cmd, p.name)
        vals.append("_" if v is None else str(int(v)))
    return "%d:%s" % (k + 1, ",".join(vals) if vals else "-")


def all_patterns(cls, dom):
    """every partial command over the domain (each parameter unspecified or one of its values)"""
    names = [n for n, _ in dom]
    choices = [[None] + list(vs) for _, vs in dom]
    out = []
    for combo in itertools.product(*choices):
        kw = {n: v for n, v in zip(names, combo) if v is not None}
        out.append(cls(partial=True, **kw))
    return out


def all_concrete(cls, dom):
    names = [n for n, _ in dom]
    out = []
    for combo in itertools.product(*[vs for _, vs in dom]):
        out.append(cls(**dict(zip(names, combo))))
    return out


def spec_matches(p, c):
    """field-wise wildcarding, written independently of the library"""
    if type(p) is not type(c):
        return False
    for prm in type(p).schema:
        e = getattr(p, prm.name)
        if e is not None and e != getattr(c, prm.name):
            return False
    return True
