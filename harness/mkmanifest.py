"""Regenerates /verif/MANIFEST.json from the table below (run after adding a check)."""
import json
import os

HERE = os.path.dirname(os.path.abspath(__file__))
VERIF = os.path.dirname(HERE)

Q = "asyncio is modelled (FIFO locks, futures, timers as a request phase machine), not verified; the invariants hold " \
    "under every interleaving of task micro-steps (MReach), the differential validates the model at quiescent points; " \
    "timer ties, real file-descriptor I/O and wall-clock latency are outside the model"
Z = "zigpy-provided wire types are modelled by wire footprint and error behaviour"

CHECKS = {
    "C03": dict(
        technique="Lean 4 proof: table step = bit-serial LFSR for all states (GF(2) linearity + 256-entry kernel "
                  "check), induction over byte strings, HD3 and burst-16 theorems; regenerated tables; differential crc ops",
        text="Kernel-checked theorems: both table automata equal the catalogue CRC-8/KOOP and CRC-16/KERMIT for every "
             "(state, byte) pair and every byte string, incremental = one-shot, every 1/2-bit pattern over the 40 "
             "header bits and every body burst <= 16 bits changes the checksum. Tables are regenerated from the "
             "working tree on every run; the update/digest algorithm and the rejection by Frame.deserialize are "
             "tied by differential runs against the compiled model.",
        note="register values within width; bursts confined to the body or to the checksum field (DESIGN 8.1)",
        design="7/C03"),
    "C05": dict(
        technique="Lean 4 proof: bit-field code translated from the Python ast, 34 get/set laws by bit-level case "
                  "analysis, byte image of built+stamped frames, reference decoder and library decoder round trips; "
                  "differential frame/deframe/ack ops",
        text="Kernel-checked: each with_x sets x (masked) and leaves the other fields unchanged for every header value; "
             "every frame built by mkData/stamp (to_frame, fragments) serializes to marker, length = bytes after the "
             "marker, type 6, flags|seq, CRC8, CRC16, body; an independent decoder and Frame.deserialize recover it "
             "and consume exactly the frame; all 8 ACKs. Accessor code is regenerated from the source ast each run; "
             "real frames of all 145 classes are compared byte for byte.",
        note="body <= 65530 bytes; non-negative setter arguments",
        design="7/C05"),
    "C09": dict(
        technique="Lean 4 proof: index-based fragmenter model, normal form first::mids++[last], slice algebra; "
                  "partition theorem for every length; exhaustive differential run over all lengths 4..998",
        text="Kernel-checked for every header and payload of any length: bodies concatenate to the message, each is "
             "1..247 bytes with a length field equal to its real size, one frame with both flags iff it fits, "
             "otherwise exactly the head is flagged first and exactly the last is flagged last. Tied by comparing "
             "real handle_tx_fragmentation with the model for every length (exhaustive in the range) and by the "
             "reference decoder on every real fragment.",
        note="non-zero command header (true of all 145 commands); 247 regenerated from frames.py",
        design="7/C09"),
    "C01": dict(
        technique="Lean 4 proof: generic resynchronising-scanner theory (chunk independence by strong induction on "
                  "the buffer), the concrete _extract_frame model shown to be a Scanner (verdict stable under "
                  "extension), find-based resync = canonical skip; differential rx sessions under all chunkings",
        text="Kernel-checked for every stream, chunking and handler: the frames handed up are those of the "
             "left-to-right parse of the whole stream, after every read the deliveries are those of the prefix "
             "received so far, the pending buffer agrees up to rejected garbage. Tied by running the real "
             "data_received against the compiled model after every chunk (hostile streams x whole/byte-wise/"
             "single-cut/random chunkings) and by checking chunk independence, prefix-exactness and ACK acceptance "
             "on the implementation's own output.",
        note="first-flagged frames carry >= 4 body bytes (DESIGN 8.5); handler does not re-enter the protocol",
        design="7/C01"),
    "C02": dict(
        technique="Lean 4 proof: exceptions as values, the raised outcome of the extractor unreachable, handler "
                  "independence, pending buffer is always a legitimately-waiting prefix (< 65537 bytes); differential "
                  "rx sessions in every link state (reached through public entry points: ACK ladder, connection_made, "
                  "sends waiting / acknowledged / expired) with raising handlers, probe frames behind filler and directly "
                  "behind rejected frames",
        text="Kernel-checked: no buffer content drives _extract_frame to an exception other than the two it handles; "
             "handler failures change nothing; what stays buffered is < 7 bytes or the start of a checksum-valid "
             "header's extent, so input always drains; after 65537 quiet bytes the next well-formed data frame is handed up, from "
             "every link state (C02_not_deaf_any_state). Tied by driving the real receiver with every checksum-valid "
             "header length 0..12 x flag byte, ACKs of every sequence value in every link state, raising handlers, "
             "each followed by probe frames that must be delivered and acknowledged.",
        note="not-deaf for extents > 330 bytes rests on the bounded-pending theorem, the probe flushes 330 bytes",
        design="7/C02"),
    "C06": dict(
        technique="Lean 4 proof: ordered write/deliver log is a function of the accepted frames (log-shape theorem "
                  "for every stream, chunking, handler); differential rx log",
        text="Kernel-checked: the log of transport writes and hand-ups equals, over the accepted frames in stream "
             "order, nothing for ACKs and [ACK(own seq), deliver] for data frames; the ACK written is the "
             "well-formed ACK of C05. Tied by comparing the real receiver's interleaved log with the model and with "
             "the theorem's shape computed from the Lean parse, with raising handlers. The shape holds in every link state "
             "(C06_log_shape_any_state); after close() and connection_made() on the same object the log is a fresh receiver's "
             "(C06_reopened_port), closed nothing is written - checked on the implementation against a fresh real receiver, "
             "with data frames of every number before and after and bodies longer than 247 bytes.",
        note="handler does not re-enter the protocol object",
        design="7/C06"),
    "C07": dict(
        technique="Lean 4 proof: link automaton with a FIFO lock (holder, queue) over send/rx/expiry/cancel/close; "
                  "lock invariant for all reachable states, stop-and-wait and FIFO step theorems; virtual-time "
                  "differential against real send tasks",
        text="Kernel-checked on the link model: waiters exist only while a holder exists (every reachable state); a "
             "data frame is written only when the link was idle or the event ended the outstanding wait (accepted ACK "
             "set the fresh event / expiry / cancellation of that sender) and that sender completes in the same step; "
             "the ACK event can only be set by an accepted ACK frame; the oldest waiter is served, at most one write "
             "per step. Tied by running real ZbossNcpProtocol.send tasks on a virtual-clock asyncio loop against the "
             "model (1..4 senders, all ACK values, duplicates, data frames, expiry, cancellation; thorough: every "
             "history to depth 6) and by a stop-and-wait monitor on the implementation's trace.",
        note=Q + "; asyncio.Lock is FIFO",
        design="7/C07"),
    "C08": dict(
        technique="Lean 4 proof: sequence number after any event = fold of ackStep over the accepted frames; range and "
                  "stamping theorems; virtual-time differential, exhaustive depth-5 histories in thorough",
        text="Kernel-checked: an accepted ACK carrying the current number steps n -> n%3+1, every other frame/event "
             "leaves it, close resets to 0, reachable values are 0..3, 0 only before the first matching ACK; frames "
             "written on an idle link are stamp(current) = flags|seq<<2 with a valid CRC8 (C05). Tied by the same "
             "virtual-time harness with a sequence-automaton monitor on the implementation.",
        note=Q,
        design="7/C08"),
    "C12": dict(
        technique="Lean 4 proof: listener-table model (registration order, deferred removal), dispatch loop; "
                  "first-eligible-waiter, at-most-one, exact callback set theorems by induction on the table; "
                  "differential against the real ZBOSS listener API",
        text="Kernel-checked for every table and command: a waiter is resolved iff an eligible one exists, then "
             "exactly the first pending matching one-shot listener in registration order, with that command; at most "
             "one per command; a match implies the same command type; the callbacks invoked are exactly the matching "
             "ones, in order, once; the table keeps finished waiters until the loop step ends so further commands of "
             "the same step go to the next waiter; and over every history of registrations, cancellations, receptions and step ends "
             "(fresh listener identities) no waiter is resolved twice nor after its cancellation. Tied by driving real wait_for_responses / "
             "register_indication_listeners / frame_received with real frames, cancellations and multi-command steps.",
        note="callbacks do not re-enter the listener API; parameter values abstracted to their integer value",
        design="7/C12"),
    "C17": dict(
        technique="Lean 4 proof: matches = same type and field-wise agreement (iff), reflexive, transitive, "
                  "de-duplication preserves the matched set (induction over the fold); differential match/dedup ops "
                  "over all patterns of a three-type universe (one with optional trailing parameters)",
        text="Kernel-checked: matches is exactly field-wise wildcarding, reflexive and transitive (equal arity per "
             "type); for every pattern list in any order with duplicates and chains, the de-duplicated listener "
             "matches exactly the commands matched by at least one pattern; never empty. Tied by exhaustive "
             "comparison of real matches() on all (pattern, command) pairs and of deduplicate_commands on pattern "
             "lists (complete commands that omit optional trailing parameters count as patterns), plus a fires-exactly-once check "
             "on real IndicationListener objects and through ZBOSS.register_indication_listeners with one-shot waiters for the "
             "same commands registered alongside.",
        note="values compared by ==; arity fixed per command type",
        design="7/C17"),
    "C04": dict(
        technique="Lean 4 proof: wire-type universe with exact-inverse lemmas by induction on the type, from_frame loop "
                  "round-trip theorem under a decidable schema-shape predicate lifted over the regenerated 145-class "
                  "table by decide +kernel; differential enc/dec of all classes",
        text="Kernel-checked: bytes = LE32 header ++ parameter encodings in schema order; construction succeeds only "
             "for in-range values (unsigned/signed ranges characterised); for every schema of the host-parsed shape "
             "and every constructible assignment from_frame(to_frame(c)) returns c (up to the one provably ambiguous "
             "encoding: omitted trailing greedy list = empty list, exactly one class); every Rsp/Ind schema of the "
             "regenerated table has that shape. Tied by regenerating the table from the imported classes and "
             "comparing real construction, to_frame and from_frame of all 145 classes with the model.",
        note=Z + "; Req classes: layout and refusal only (the host never parses requests)",
        design="7/C04"),
    "C15": dict(
        technique="Lean 4 proof: from_frame error-branch model; prefix lemma for the parse loop; failure-prefix, "
                  "zero-status-cut, surplus and cut-before-status theorems; differential over every truncation point "
                  "of all 69 response classes",
        text="Kernel-checked: with a non-zero status, bytes that stop anywhere inside a later non-greedy parameter "
             "yield the partial command with exactly the complete parameters; with status zero the same bytes are "
             "rejected (except at the start of an optional parameter, where they are a complete shorter command); "
             "surplus bytes and cuts before the status are rejected. Tied by running real from_frame on every "
             "truncation point and on surplus bytes for all response classes against the model and an independent "
             "observation checker.",
        note=Z + "; greedy last fields: element boundaries are valid encodings (DESIGN 8.3)",
        design="7/C15"),
    "C16": dict(
        technique="Lean 4 proof: scalar/record/list decoders invert encoders on encoding++suffix and reject every strict "
                  "prefix (induction on the type); recursive C-struct layout: natural alignment and packing theorems "
                  "for every definition (mutual structural induction); NVRAM read-layout parse theorems; differential "
                  "on 27 wire types, random CStruct definitions and NVRAM datasets",
        text="Kernel-checked for every value of every non-greedy wire type: dec(enc v ++ r) = (v, r), dec of any "
             "strict prefix = value error, decoders fail with value errors only; greedy lists invert exactly; for "
             "every struct definition and nesting: aligned offsets are multiples of the field alignment and the size "
             "a multiple of the maximum, packed offsets are prefix sums; NVRAM address-map / APS-key datasets parse "
             "to exactly the stored records. Tied by differential runs on the real types incl. randomly generated "
             "CStruct subclasses in both alignment modes.",
        note=Z + "; CStruct encode/decode tied by correspondence, layout by theorem",
        design="7/C16"),
    "C19": dict(
        technique="Lean 4 proof: regenerated command table contains every pinned wire view (decide +kernel), headers "
                  "injective, Req/Rsp pairing, status prefix; pinned byte vectors and enum maps re-checked on the "
                  "current classes",
        text="Kernel-checked against the committed golden table of the pinned revision: every pinned command is still "
             "present with the same header, field wire types (order, width, signedness), optional flags and enum "
             "value sets, hence the same bytes for the same values; headers are pairwise distinct; each request has "
             "exactly one response of its id. Tied by regenerating the table from the imported classes on every run "
             "and by re-encoding 870 pinned value assignments and comparing enum members by name.",
        note="identity is positional and numeric: names and `blocking` are not pinned (DESIGN 8.4)",
        design="7/C19"),
    "C10": dict(
        technique="Lean 4 proof: fragment-buffer model of frame_received; reassembly theorem for every train "
                  "first::mids++[last] from any pending state, restart theorems, link to the fragmenter (C09); "
                  "differential through the real transport entry and real listeners",
        text="Kernel-checked: for every command header and payload, every split into first/middle/last fragments of any "
             "sizes and any stale pending fragments, exactly one message with that header and payload is handed on when "
             "the last fragment arrives and nothing stays pending; a first-flagged frame always discards pending "
             "fragments; the host's own fragmenter output is such a train. Tied by injecting bytes at the real "
             "transport (random splits, the host's own fragments, interrupted sequences, all chunkings) and observing "
             "real listeners, against Rx + reassembly + table + from_frame in the model.",
        note="frames as handed up by the receiver (C01/C06); bytes-to-frames by the C05 round-trip theorems and correspondence",
        design="7/C10"),
    "C18": dict(
        technique="Lean 4 proof: send_packet / on_apsde_indication / get_sequence / bind as record maps with constants "
                  "regenerated from zigpy and the repo; field-fidelity, little-endian address, option, indication-slicing, "
                  "never-255 and bind theorems; differential against a real ControllerApplication with a stub API",
        text="Kernel-checked for every packet / indication / destination: the data request carries the payload unchanged, "
             "its length, ParamLength 21 (= the summed width of the generated DataReq parameter section), endpoints, "
             "cluster, profile, TSN; 16-bit addresses little-endian in the first two bytes, IEEE unchanged; ACK / "
             "encryption options preserved, broadcast sent as group; indications deliver the first PayloadLength bytes "
             "addressed by the frame-control bits; sequence numbers never reach 255; bind/unbind forward IEEE and "
             "group destinations faithfully. Tied by driving the real ControllerApplication / ZbossZDO and comparing "
             "the recorded requests and delivered packets with the model.",
        note="zigpy classes by the fields read; endpoint-0 (ZDO) packets are routed elsewhere and outside the property",
        design="7/C18"),
    "C11": dict(
        technique="Lean 4 proof: request machine over three FIFO locks (blocking, message, transmit); runReq decomposed "
                  "into micro-steps; whole-history theorem C11_trace (the complete output log of every event sequence is "
                  "accepted by the message monitor) via a coupling invariant; every-schedule reachability MReach; "
                  "transmit lock cannot be taken during an ACK wait; virtual-time differential against real "
                  "ZBOSS.request tasks with a reference-NCP monitor",
        text="Kernel-checked for every event history, any number of close() / connect() cycles on the same object included: "
             "the whole wire log is accepted by the message monitor - the fragments of a message go out in order 0..n-1, the last data frame before fragment f>0 of a request is "
             "fragment f-1 of the same request (C11_contiguous), an abandoned message is never continued; at most one "
             "request is inside its transmission and at most one awaits an ACK, in every state the event loop can be in "
             "under every order of task micro-steps (C11_any_schedule); no task step writes a data frame while an ACK "
             "wait is pending and an event that is not the matching ACK, the sender's cancellation or the expiry of its "
             "ACK deadline writes nothing (C11_each_after_ack_or_expiry); at the wire, the fragments of a message stamped "
             "with any sequence numbers, with acknowledgement frames interleaved anywhere and cut into reads in any way, "
             "are handed up exactly by a protocol-following NCP and reassemble to the request's header and parameter bytes "
             "(C11_ncp_sees_request, C11_ncp_sees_small_request). Tied by comparing real request tasks (1..4 "
             "fragments, blocking or not, cancellation, expiry, close, loss) with the model per quiescent step, plus a "
             "reference-NCP monitor (well-formed writes, contiguous fragments, reassembled bytes == request).",
        note=Q + "; byte-level well-formedness of each write is C05/C09; the request machine (C11_trace) is abstract in the "
             "frame contents, the wire theorem (C11_ncp_sees_request) is about the bytes of one message: the two meet at "
             "'no data frame of another message in between'; the every-schedule form (C11_any_schedule, events striking in the "
             "middle of a loop iteration) claims the trace on the first connection only",
        design="7/C11, 12.1"),
    "C13": dict(
        technique="Lean 4 proof: no-residue invariant (every registered listener belongs to a running request) preserved "
                  "by every primitive, task step and event, for all reachable states; differential with cancellation / "
                  "expiry at every phase, late and duplicate responses, follow-up requests",
        text="Kernel-checked for every event history: every registered response listener belongs to a request that is "
             "still running; a finished request (response, timeout, cancellation in any phase, close, loss) has none; a "
             "response resolves the first-registered listener of its command, whose request is running; task steps "
             "never add listeners; the invariant holds under every order of task micro-steps "
             "(C13_no_residue_any_schedule). Tied by systematic cancel/expiry scenarios and random schedules on the real code "
             "with a listener-count monitor and the model's attribution of every RET. A registered listener carries its request's command, so a request that is running and unanswered while every other request for its command has ended is the one the next response resolves (C13_next_request_gets_its_response). The waiters are pairwise distinct per request, and on them the request machine's find/filter is exactly the dispatch loop of the C12 listener-table model (C13_routing_is_listener_table).",
        note=Q,
        design="7/C13"),
    "C14": dict(
        technique="Lean 4 proof: from the lock-discipline invariant: at most one blocking request is past the blocking "
                  "lock in every reachable state; FIFO lemmas for acquire/release; non-blocking requests bypass the "
                  "blocking lock; differential with mixed blocking / non-blocking requests",
        text="Kernel-checked for every event history: two blocking requests are never both between taking the blocking "
             "lock and finishing, so no frame of another blocking request can be written while one is in progress; "
             "locks are served strictly first-in first-out; a request not marked blocking never touches the blocking "
             "lock; exclusivity holds in every state under every order of task micro-steps "
             "(C14_exclusive_any_schedule); first come, first served for whole histories: the lock's queue is always a sub-list "
             "of the request list and a blocking request issued later is never past the lock while an earlier one still waits "
             "for it (C14_first_come_first_served, C14_queue_in_issue_order). Tied by the virtual-time differential, by scenario checks that a non-blocking request is "
             "written at once while a blocking one only waits for its response, and by scenarios across a deliberate NCP reset "
             "(real reset() / connect() with failing re-open attempts: requests that outlive the reset still exclude later ones; "
             "reset / reconnect is observed on the implementation only, it is not an event of the model).",
        note=Q,
        design="7/C14"),
    "C20": dict(
        technique="Lean 4 proof: step theorems for close / loss / start-after-close over the request machine using a "
                  "frame lemma for task steps; Covered invariant (converse of no-residue) and stability of the shut "
                  "state for every history and every schedule; differential with close / loss at every quiescent point, "
                  "with and without reset, virtual completion times, late-end monitor",
        text="Kernel-checked: after close no listener is registered, the link is closed and stays closed whatever "
             "follows (C20_shut_forever); a new request is refused in the same step; a second close closes and reports "
             "nothing; a loss is reported exactly once and not at all during a reset; no other event reports a loss or "
             "closes; once shut, every request still running carries a resolved or cancelled response future in every "
             "state under every order of task micro-steps (C20_none_awaits_response) and ends at its next task step, a "
             "request about to transmit ends with RuntimeError (C20_next_step_ends). Queue integrity and no lost wake-up "
             "are proved for every reachable state; hence at a quiescent point a running request waits for a pending ACK "
             "or response wait (C20_no_stranding), and after close, once the pending ACK wait's timer has fired and the loop "
             "has come to rest, every request has ended (C20_close_bounded); a response wait ends at the timer event that "
             "reaches its deadline, link open, lost or closed (C20_response_wait_ends_at_deadline). The loss clause is a "
             "theorem over successive timer expiries: a potential (2 per request that may still write or awaits an ACK, 1 "
             "per other running request) never grows under task steps once the API has no uart and drops with every timer "
             "expiry while a request runs, so after at most two expiries per request every request has ended "
             "(C20_loss_requests_end_with_their_timers, C20_timer_expiry_makes_progress). The event loop of the model comes to "
             "rest after every event of every history (C20_loop_comes_to_rest: a measure drops with every task run and the "
             "fuel given to the run covers it), so none of these theorems carries a quiescence hypothesis. The model includes "
             "connect() on the same object (a new protocol object: numbering 0, an ACK wakes only senders of the current "
             "connection): the invariants are proved for histories with any number of reconnects, 'shut stays shut' until "
             "connect (C20_connect_reopens, C20_ack_on_new_connection).",
        note=Q + "; that the model's loop is at rest after every event of every history is itself a theorem "
             "(C20_loop_comes_to_rest)",
        design="7/C20, 12.1"),
}

NOT_YET = "check not built yet in this revision of /verif (planned, see DESIGN.md section 7)"


def main():
    props = [json.loads(l)["id"] for l in open(os.path.join(VERIF, "properties.jsonl"))]
    checks = []
    na = []
    for p in props:
        c = CHECKS.get(p)
        if c is None:
            na.append(dict(property_id=p, reason=NOT_YET))
            continue
        checks.append(dict(
            property_id=p,
            quick_cmd="./check %s quick" % p,
            thorough_cmd="./check %s thorough" % p,
            evidence_file="evidence/%s.json" % p,
            replay_cmd_template="./check %s --replay {path}" % p,
            engine="lean4-proof+correspondence",
            level_claimed=dict(category="proof", text=c["text"], design_ref="DESIGN.md section " + c["design"]),
            level_note="Trusted: Lean 4.33 kernel; axioms propext/Classical.choice/Quot.sound only (audited per "
                       "theorem on every run); translator + correspondence harness; " + c["note"],
            technique=c["technique"],
        ))
    m = dict(
        version=1,
        setup_cmd="./check --setup",
        hooks=dict(
            guard="ZIGPY_ZBOSS_VERIF",
            enable="no source hook is needed: every observation point is reachable through public entry points "
                   "with a recording transport / API stub supplied by the harness (guard name reserved)",
            baseline_off_cmd="cd /repo && /venv/bin/python -m pytest -ra -q -p no:cacheprovider --timeout=900 "
                             "--continue-on-collection-errors",
            source_commits=[],
            add_only=True,
        ),
        engines=[dict(name="lean4-proof+correspondence", path="check",
                      serves_properties=[c["property_id"] for c in checks],
                      kind_free_text="Lean 4 model + kernel-checked theorems (lean/ZbossModel), translators "
                                     "(harness/extract_*.py) and differential correspondence harness "
                                     "(harness/props/*.py) driving the compiled model through a line protocol")],
        checks=checks,
        notes="All checks: exit 0 held / 1 VIOLATION / 2 infrastructure. VERIF_SEED honoured. fix: commits in /repo "
              "are listed in known_findings.json.",
        not_applicable=na,
    )
    with open(os.path.join(VERIF, "MANIFEST.json"), "w") as f:
        json.dump(m, f, indent=1)
    print("MANIFEST: %d checks, %d not claimed" % (len(checks), len(na)))


if __name__ == "__main__":
    main()
