#!/bin/bash
# usage: harness/seedtest.sh <patch.diff> <Cxx> [Cyy ...]   - apply a seeded change to /repo, run the quick checks, undo it
set -u
cd /verif
patch="$1"; shift
if ! git -C /repo diff --quiet; then echo "/repo is dirty"; exit 2; fi
git -C /repo apply "$patch" || { echo "patch does not apply"; exit 2; }
for p in "$@"; do
  out=$(./check "$p" ${TIER:-quick} 2>&1 | grep -E "VIOLATION|seed=|INFRA" | cut -c1-220)
  echo "$p: $out"
done
git -C /repo checkout -- .
# the proofs are rebuilt against the clean tree by the next check; do it now so that later runs are fast
for p in "$@"; do ./check "$p" quick >/dev/null 2>&1; done
