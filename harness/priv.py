"""Name-independent access to the few internals of the implementation the harness needs.

The harness drives the library through its public entry points, but a handful of internal fields are needed to set
scenarios up or to make a comparison tighter (the link's current packet sequence number, the port object of the API,
the table of listeners, the lock that marks "reset in progress", the application's sequence counter).  Their *names*
are private and may change in a harmless refactor, so they are not hard-coded: each is found once per run **by what it
does** on a scratch object (the integer field that a matching acknowledgement moves from 0 to 1, the field that
`connection_made` sets to the transport, the mapping that gains an entry when a waiter is registered, ...).  A field
that cannot be found yields `None`: the checks then go without it (a looser comparison), they never fail because of a
rename.
"""
import asyncio

_cache = {}


def _cfg():
    import zigpy_zboss.config as conf
    return {conf.CONF_DEVICE_PATH: "/dev/null", conf.CONF_DEVICE_BAUDRATE: 115200, conf.CONF_DEVICE_FLOW_CONTROL: None}


class _Tr:
    class serial:
        name = "verif"
        baudrate = 115200

    def write(self, b):
        pass

    def close(self):
        pass


class _Api:
    def frame_received(self, frame):
        pass

    def connection_lost(self, exc):
        pass


def _snapshot(obj):
    """instance attributes, plus the values of the class's properties (a field may have become a computed property)"""
    d = dict(vars(obj))
    for name in dir(type(obj)):
        if name.startswith("__") or name in d:
            continue
        if isinstance(getattr(type(obj), name, None), property):
            try:
                d[name] = getattr(obj, name)
            except Exception:
                pass
    return d


def _changed(before, obj, pred):
    out = []
    for k, v in _snapshot(obj).items():
        if pred(before.get(k, _MISSING), v):
            out.append(k)
    return out


_MISSING = object()


def proto_names():
    """{'pack_seq', 'ack_seq', 'buffer', 'transport', 'ack_event'} -> attribute name (or None) of ZbossNcpProtocol"""
    if "proto" in _cache:
        return _cache["proto"]
    names = dict(pack_seq=None, ack_seq=None, buffer=None, transport=None, ack_event=None)
    try:
        from zigpy_zboss import uart
        import streams
        loop = asyncio.new_event_loop()
        try:
            async def mk():
                return uart.ZbossNcpProtocol(_cfg(), _Api())
            p = loop.run_until_complete(mk())
            tr = _Tr()
            b = _snapshot(p)
            p.connection_made(tr)
            c = [k for k, v in vars(p).items() if v is tr]
            if len(c) == 1:
                names["transport"] = c[0]
            # the integer that a matching acknowledgement moves 0 -> 1
            b = _snapshot(p)
            p.data_received(streams.ack(0))
            c = _changed(b, p, lambda x, y: isinstance(x, int) and not isinstance(x, bool) and x == 0 and y == 1)
            if len(c) == 1:
                names["pack_seq"] = c[0]
            # the integer that a data frame with packet number 2 sets to 2
            b = _snapshot(p)
            p.data_received(streams.raw_frame(0xC0 | (2 << 2), bytes([1, 0, 2, 0, 0])))
            c = _changed(b, p, lambda x, y: isinstance(y, int) and not isinstance(y, bool) and y == 2 and x != 2)
            if len(c) == 1:
                names["ack_seq"] = c[0]
            # the byte buffer that keeps an incomplete frame
            p.data_received(b"\xde\xad\x10")
            c = [k for k, v in vars(p).items() if isinstance(v, (bytes, bytearray)) and bytes(v).endswith(b"\xde\xad\x10")]
            if len(c) == 1:
                names["buffer"] = c[0]
            p.data_received(bytes(40))

            # the event a sender waits on
            async def probe():
                import zigpy_zboss.commands as cm
                before = _snapshot(p)
                t = asyncio.ensure_future(p.send(cm.NcpConfig.GetModuleVersion.Req(TSN=1).to_frame()))
                for _ in range(5):
                    await asyncio.sleep(0)
                cands = [k for k, v in vars(p).items() if isinstance(v, asyncio.Event) and v is not before.get(k)]
                t.cancel()
                try:
                    await t
                except BaseException:
                    pass
                return cands
            c = loop.run_until_complete(probe())
            if len(c) == 1:
                names["ack_event"] = c[0]
        finally:
            loop.close()
    except Exception:
        pass
    _cache["proto"] = names
    return names


def api_names():
    """{'uart', 'listeners', 'reset_lock', 'app'} -> attribute name (or None) of ZBOSS"""
    if "api" in _cache:
        return _cache["api"]
    names = dict(uart=None, listeners=None, reset_lock=None, app=None)
    try:
        from unittest import mock
        from zigpy_zboss.api import ZBOSS
        import zigpy_zboss.config as conf
        import zigpy_zboss.commands as cm
        import zigpy.serial
        loop = asyncio.new_event_loop()
        try:
            cfg = {conf.CONF_DEVICE: _cfg()}

            async def go():
                api = ZBOSS(cfg)
                made = []

                async def create_serial_connection(loop, protocol_factory, url, **kw):
                    p = protocol_factory()
                    p.connection_made(_Tr())
                    made.append(p)
                    return _Tr(), p
                with mock.patch.object(zigpy.serial, "create_serial_connection", create_serial_connection):
                    await api.connect()
                c = [k for k, v in vars(api).items() if made and v is made[0]]
                if len(c) == 1:
                    names["uart"] = c[0]
                app = mock.Mock()
                api.set_application(app)
                c = [k for k, v in vars(api).items() if v is app]
                if len(c) == 1:
                    names["app"] = c[0]
                before = {k: (len(v) if hasattr(v, "__len__") else None) for k, v in vars(api).items()}
                fut = api.wait_for_response(cm.NcpConfig.GetModuleVersion.Rsp(partial=True))
                c = [k for k, v in vars(api).items() if isinstance(v, dict) and len(v) == (before.get(k) or 0) + 1]
                if len(c) == 1:
                    names["listeners"] = c[0]
                # the lock under which close() keeps the listeners (a deliberate reset is in progress)
                locks = [k for k, v in vars(api).items() if isinstance(v, asyncio.Lock)]
                found = []
                if names["listeners"]:
                    for k in locks:
                        lk = getattr(api, k)
                        await lk.acquire()
                        try:
                            n0 = len(getattr(api, names["listeners"]))
                            api.close()
                            if len(getattr(api, names["listeners"])) == n0 and n0 > 0:
                                found.append(k)
                        finally:
                            lk.release()
                        if found:
                            break
                        # close() without the reset lock cleared everything: set the scene up again
                        with mock.patch.object(zigpy.serial, "create_serial_connection", create_serial_connection):
                            await api.connect()
                        fut = api.wait_for_response(cm.NcpConfig.GetModuleVersion.Rsp(partial=True))
                if len(found) == 1:
                    names["reset_lock"] = found[0]
                fut.cancel()
                api.close()
            loop.run_until_complete(go())
        finally:
            loop.close()
    except Exception:
        pass
    _cache["api"] = names
    return names


def get(obj, kind, what, default=None):
    n = (proto_names() if kind == "proto" else api_names()).get(what)
    if n is None:
        return default
    return getattr(obj, n, default)


def put(obj, kind, what, value):
    n = (proto_names() if kind == "proto" else api_names()).get(what)
    if n is None:
        return False
    setattr(obj, n, value)
    return True


def pack_seq(p, default=0):
    """the link's current packet sequence number (the number a matching acknowledgement carries)"""
    v = get(p, "proto", "pack_seq", None)
    return default if v is None else int(v)


def app_seq_name(app):
    """name of the application's sequence counter: the integer field that `get_sequence()` changes"""
    if "appseq" in _cache:
        return _cache["appseq"]
    name = None
    try:
        before = {k: v for k, v in vars(app).items() if isinstance(v, int) and not isinstance(v, bool)}
        app.get_sequence()
        c = [k for k, v in vars(app).items() if k in before and v != before[k]]
        if len(c) == 1:
            name = c[0]
            setattr(app, name, before[name])
    except Exception:
        pass
    _cache["appseq"] = name
    return name
