"""Generators of serial byte streams (valid frames, noise, corruptions, hostile
headers) and of chunkings, shared by C01, C02, C06, C10."""
import gen


def _refl(x, n):
    r = 0
    for i in range(n):
        if x >> i & 1:
            r |= 1 << (n - 1 - i)
    return r


def _crc(data, width, poly, init, xorout):
    """bit-by-bit reflected CRC, written from the catalogue parameters - deliberately not the library's table-driven code"""
    crc, top, mask = init, 1 << (width - 1), (1 << width) - 1
    for b in bytes(data):
        crc ^= _refl(b, 8) << (width - 8)
        for _ in range(8):
            crc = ((crc << 1) ^ poly) & mask if crc & top else (crc << 1) & mask
    return _refl(crc, width) ^ xorout


_T8 = [_crc(bytes([i]), 8, 0x4D, 0x00, 0x00) for i in range(256)]      # reflected table, for speed only
_T16 = [_crc(bytes([i]), 16, 0x1021, 0x0000, 0x0000) for i in range(256)]


def crc8(b):
    """CRC-8/KOOP (poly 0x4D, init 0xFF, reflected, xorout 0xFF) - the protocol's header checksum, independent of the library"""
    c = 0xFF
    for x in bytes(b):
        c = _T8[c ^ x]
    return c ^ 0xFF


def crc16(b):
    """CRC-16/KERMIT (poly 0x1021, init 0, reflected) - the protocol's body checksum, independent of the library"""
    c = 0
    for x in bytes(b):
        c = _T16[(c ^ x) & 0xFF] ^ (c >> 8)
    return c


def raw_frame(flags, body, length=None, good_crc8=True, good_crc16=True):
    """A link frame built by hand from the format (not with the library)."""
    blk = b""
    if body is not None:
        c = crc16(body) if good_crc16 else (crc16(body) ^ 0x0101)
        blk = c.to_bytes(2, "little") + bytes(body)
    n = (len(blk) + 5) if length is None else length
    hdr = n.to_bytes(2, "little") + bytes([6, flags])
    c8 = crc8(hdr) if good_crc8 else (crc8(hdr) ^ 0x40)
    return b"\xde\xad" + hdr + bytes([c8]) + blk


def header_only(length, flags, good=True, ftype=6):
    hdr = length.to_bytes(2, "little") + bytes([ftype, flags])
    c8 = crc8(hdr) if good else (crc8(hdr) ^ 0x11)
    return b"\xde\xad" + hdr + bytes([c8])


def ack(seq, retransmit=False):
    return header_only(5, (seq << 4) | 1 | (2 if retransmit else 0))


def command_frame(r, seq=None):
    cls = r.choice(gen.all_command_classes())
    cmd = gen.gen_cmd(cls, r)
    f = cmd.to_frame()
    body = f.hl_packet.serialize()[2:]
    return raw_frame(0xC0 | ((r.randrange(4) if seq is None else seq) << 2), body)


def fragments_wire(r, n):
    """A large request as the host's own transmitter would emit it (stamped with running sequence numbers)."""
    whole = gen.big_request(r, n).to_frame()
    out = []
    seq = r.randrange(4)
    for f in whole.handle_tx_fragmentation():
        body = f.hl_packet.serialize()[2:]
        out.append(raw_frame((int(f.ll_header.flags) & 0xC0) | (seq << 2), body))
        seq = seq % 3 + 1
    return out


def noise(r):
    k = r.randrange(8)
    n = r.choice([1, 2, 3, 6, 7, 8, 14, 30])
    if k == 0:
        return bytes(r.getrandbits(8) for _ in range(n))
    if k == 1:
        return bytes(r.choice([0xDE, 0xAD, r.getrandbits(8)]) for _ in range(n))
    if k == 2:
        return bytes(r.getrandbits(8) for _ in range(n)) + b"\xde"
    if k == 3:
        return b"\xde\xad" + bytes(r.getrandbits(8) for _ in range(r.randrange(0, 5)))
    if k == 4:
        return b"\xde" * r.randrange(1, 4)
    if k == 5:
        return bytes(r.getrandbits(8) for _ in range(n)) + b"\xde\xad\xde"
    if k == 6:
        return bytes([0xAD]) + bytes(r.getrandbits(8) for _ in range(n))
    return bytes(n)


def retransmission(r):
    """a data frame followed by its retransmission(s): same sequence number, Retransmit bit set"""
    seq = r.randrange(4)
    body = command_frame(r, seq)[9:]
    first = raw_frame(0xC0 | (seq << 2) | (0x02 if r.random() < 0.3 else 0), body)
    again = raw_frame(0xC0 | (seq << 2) | 0x02, body)
    return first + again * r.choice([1, 1, 2])


def element(r, hostile=True):
    """One stream element with a label."""
    k = r.randrange(25 if hostile else 9)
    if k == 24:   # a frame whose command header is all zero (falsy as an integer); its body ends like the start of a
        # frame, and the bytes behind it - garbage, there is no start marker - would complete exactly that frame
        tail = bytes(r.getrandbits(8) for _ in range(4))
        ghost_rest = bytes([6, 0xC0 | (r.randrange(4) << 2)])
        ghost_rest += bytes([crc8(b"\x0b\x00" + ghost_rest)]) + crc16(tail).to_bytes(2, "little") + tail
        body = bytes(4) + bytes(r.getrandbits(8) for _ in range(r.choice([0, 3, 9]))) + r.choice([b"", b"\xde\xad", b"\xde\xad\x0b\x00", b"\xde\xad\x0b\x00"])
        return "zero-header", raw_frame(r.choice([0xC0, 0x40]) | (r.randrange(4) << 2), body) + r.choice([b"", ghost_rest, ghost_rest])
    if k == 23:   # a checksum-valid frame with a body whose flags say "acknowledgement" (plus any other flag combination)
        body = bytes(r.getrandbits(8) for _ in range(r.choice([4, 6, 9, 40])))
        return "ack-flagged-data", raw_frame(0x01 | r.choice([0xC0, 0x40, 0x80, 0x00]) | (r.randrange(4) << 2) | (r.randrange(4) << 4), body)
    if k == 8 and not hostile or k == 20:
        return "retransmit", retransmission(r)
    if k == 21:   # a frame of a foreign type with valid header and body checksums
        body = bytes(r.getrandbits(8) for _ in range(r.choice([4, 9, 30])))
        c = crc16(body)
        hdr = (len(body) + 7).to_bytes(2, "little") + bytes([r.choice([0, 5, 7, 0x16]), r.choice([0xC0, 0xC4, 0x80, 0x00])])
        return "wrong-type-data", b"\xde\xad" + hdr + bytes([crc8(hdr)]) + c.to_bytes(2, "little") + body
    if k == 22:   # data frame with the retransmit bit and any sequence number, first in the stream
        body = bytes(r.getrandbits(8) for _ in range(r.choice([4, 9, 40])))
        return "retransmit-flagged", raw_frame(0xC2 | (r.randrange(4) << 2), body)
    if k <= 2:
        return "cmd", command_frame(r)
    if k == 3:
        return "ack", ack(r.randrange(4), r.random() < 0.3)
    if k == 4:
        body = bytes(r.getrandbits(8) for _ in range(r.choice([4, 5, 9, 40, 247])))
        return "rawframe", raw_frame(r.choice([0xC0, 0x40, 0x80, 0x00, 0xC4, 0x8C]), body)
    if k == 5:
        return "frags", b"".join(fragments_wire(r, r.choice([240, 300, 600])))
    if k in (6, 7):
        return "noise", noise(r)
    if k == 8:   # checksum-valid header with an impossible / odd length
        ln = r.choice([0, 1, 2, 3, 4, 5, 6, 7, 8, 9, 10, 11, 12, 255, 300])
        return "hdr-valid-len%d" % ln, header_only(ln, r.choice([0xC0, 0x40, 0x80, 0x00, 0x01, 0xC1, r.getrandbits(8)])) \
            + bytes(r.getrandbits(8) for _ in range(r.choice([0, 0, 3, 12])))
    if k == 9:   # bad header crc announcing a long body
        return "hdr-badcrc-long", header_only(r.choice([0xFFFF, 0x1000, 300]), 0xC0, good=False)
    if k == 10:  # bit-flipped frame
        f = bytearray(command_frame(r))
        for _ in range(r.choice([1, 1, 2])):
            i = r.randrange(len(f) * 8)
            f[i // 8] ^= 1 << (i % 8)
        return "bitflip", bytes(f)
    if k == 11:  # truncated frame
        f = command_frame(r)
        return "truncated", f[:r.randrange(1, len(f))]
    if k == 12:  # duplicate
        f = command_frame(r)
        return "duplicate", f + f
    if k == 13:  # bad body crc
        body = bytes(r.getrandbits(8) for _ in range(r.choice([4, 9, 40])))
        return "bad-crc16", raw_frame(r.choice([0xC0, 0x80, 0x00]), body, good_crc16=False)
    if k == 14:  # wrong type
        return "wrong-type", header_only(5, 0x01, ftype=r.choice([0, 5, 7])) + b"\x00" * r.randrange(0, 3)
    if k == 15:  # first-flagged frame too short for an HL header
        return "first-short", raw_frame(0xC0, bytes(r.getrandbits(8) for _ in range(r.randrange(0, 4))))
    if k == 16:  # data frame with an empty block (no crc16 at all)
        return "no-body", header_only(5, r.choice([0xC0, 0x80, 0x00]))
    if k == 17:  # ACK announcing a body
        return "ack-with-body", header_only(r.choice([6, 9, 20]), 0x11) + bytes(r.getrandbits(8) for _ in range(r.choice([1, 4, 15])))
    if k == 18:  # valid header, valid length, body never completes before another frame starts
        return "hdr-valid-long", header_only(r.choice([40, 100]), 0xC0)
    return "continuation", raw_frame(r.choice([0x00, 0x80, 0x04, 0x88]), bytes(r.getrandbits(8) for _ in range(r.choice([1, 2, 30]))))


def stream(r, nmax=7, hostile=True):
    parts = [element(r, hostile) for _ in range(r.randrange(1, nmax + 1))]
    return [p[0] for p in parts], b"".join(p[1] for p in parts)


def chunkings(r, s, single_cuts=30, randoms=4):
    """Yield (label, list of chunks)."""
    n = len(s)
    yield "whole", [s]
    if n <= 400:
        yield "bytewise", [s[i:i + 1] for i in range(n)]
    cuts = list(range(1, n))
    if len(cuts) > single_cuts:
        # always include the cuts next to every 0xDE (inside start markers)
        near = [i for i in cuts if s[i - 1] == 0xDE or s[i] == 0xAD]
        r.shuffle(near)
        nearset = set(near)
        rest = [i for i in cuts if i not in nearset]
        r.shuffle(rest)
        cuts = (near[:single_cuts // 2] + rest)[:single_cuts]
    for c in cuts:
        yield "cut@%d" % c, [s[:c], s[c:]]
    for _ in range(randoms):
        k = r.randrange(2, 8)
        ps = sorted(set(r.randrange(1, max(n, 2)) for _ in range(k)))
        ps = [0] + [p for p in ps if p < n] + [n]
        yield "random-%dway" % (len(ps) - 1), [s[a:b] for a, b in zip(ps, ps[1:])]
