"""Shared machinery of the checks: regenerate, build, audit, driver I/O,
evidence / replay writers, known-findings filter.

Exit codes of a check: 0 = property held on everything explored, 1 = VIOLATION
(line printed), 2 = infrastructure problem (tool missing, timeout, bad usage).
"""
from __future__ import annotations

import fcntl
import hashlib
import json
import os
import random
import re
import subprocess
import sys
import time

HERE = os.path.dirname(os.path.abspath(__file__))
VERIF = os.path.dirname(HERE)
LEAN = os.path.join(VERIF, "lean", "ZbossModel")
REPO = os.environ.get("ZBOSS_REPO", "/repo")
DRIVER = os.path.join(LEAN, ".lake", "build", "bin", "driver")
ALLOWED_AXIOMS = {"propext", "Classical.choice", "Quot.sound"}
FORBIDDEN = re.compile(
    r"\bsorry\b|\badmit\b|^\s*axiom\s|native_decide|bv_decide|implemented_by|\bunsafe\s|maxHeartbeats\s+0\b",
    re.M)

TRUSTED_BASE = [
    "Lean 4.33.0 kernel (thorough tier: leanchecker re-check of the compiled modules)",
    "axioms admitted: propext, Classical.choice, Quot.sound only - audited with #print axioms on every theorem of the property file; no native_decide, no bv_decide, no sorry, no axiom of ours (source grep)",
    "translator harness/extract_*.py: data read from the imported classes of /repo's working tree -> ZbossModel/Generated/*.lean on every run",
    "correspondence harness (this run): real zigpy_zboss code in-process vs compiled Lean driver on the same inputs; differential testing, sees only what it generated",
    "CPython semantics of slices / int / bytearray.find / dict order as written in ZbossModel/Basic.lean and the model files",
]


class Infra(Exception):
    """Infrastructure failure -> exit 2."""


def sh(cmd, cwd=None, timeout=3600, env=None):
    e = dict(os.environ)
    if env:
        e.update(env)
    try:
        p = subprocess.run(cmd, cwd=cwd, timeout=timeout, env=e, stdout=subprocess.PIPE,
                           stderr=subprocess.STDOUT, text=True)
    except subprocess.TimeoutExpired as ex:
        raise Infra("timeout: %s" % " ".join(cmd)) from ex
    except FileNotFoundError as ex:
        raise Infra("tool missing: %s" % cmd[0]) from ex
    return p.returncode, p.stdout


class BuildLock:
    def __enter__(self):
        self.f = open(os.path.join(LEAN, ".buildlock"), "w")
        fcntl.flock(self.f, fcntl.LOCK_EX)
        return self

    def __exit__(self, *a):
        fcntl.flock(self.f, fcntl.LOCK_UN)
        self.f.close()


def repo_head():
    rc, out = sh(["git", "-C", REPO, "rev-parse", "HEAD"])
    rc2, st = sh(["git", "-C", REPO, "status", "--porcelain"])
    return out.strip() + ("+dirty" if st.strip() else "")


def regenerate():
    sys.path.insert(0, HERE)
    import extract_tables
    return extract_tables.regenerate()


def lake_build(targets, timeout=3000):
    """Returns (ok, log)."""
    with BuildLock():
        rc, out = sh(["lake", "build"] + list(targets), cwd=LEAN, timeout=timeout)
    return rc == 0, out


def strip_comments(src: str) -> str:
    out = []
    i = 0
    depth = 0
    n = len(src)
    while i < n:
        if src.startswith("/-", i):
            depth += 1
            i += 2
        elif depth and src.startswith("-/", i):
            depth -= 1
            i += 2
        elif depth:
            if src[i] == "\n":
                out.append("\n")
            i += 1
        elif src.startswith("--", i):
            while i < n and src[i] != "\n":
                i += 1
        else:
            out.append(src[i])
            i += 1
    return "".join(out)


def grep_forbidden():
    """Source grep for proof escapes in every Lean file of the project."""
    hits = []
    for root, dirs, files in os.walk(LEAN):
        dirs[:] = [d for d in dirs if d != ".lake"]
        for fn in files:
            if not fn.endswith(".lean"):
                continue
            p = os.path.join(root, fn)
            code = strip_comments(open(p).read())
            # string literals may legitimately mention the words
            code = re.sub(r'"(?:[^"\\]|\\.)*"', '""', code)
            for m in FORBIDDEN.finditer(code):
                line = code.count("\n", 0, m.start()) + 1
                hits.append("%s:%d: %s" % (os.path.relpath(p, LEAN), line, m.group(0).strip()))
    return hits


def prop_theorems(prop):
    """(namespace-qualified) names of all theorems stated in Props/<prop>.lean."""
    src = strip_comments(open(os.path.join(LEAN, "ZbossModel", "Props", prop + ".lean")).read())
    names = []
    ns = []
    for line in src.splitlines():
        m = re.match(r"\s*namespace\s+(\S+)", line)
        if m:
            ns.append(m.group(1))
            continue
        m = re.match(r"\s*end\s+(\S+)", line)
        if m and ns and ns[-1] == m.group(1):
            ns.pop()
            continue
        m = re.match(r"\s*(?:private\s+|protected\s+)?theorem\s+([^\s:({\[]+)", line)
        if m:
            names.append(".".join(ns + [m.group(1)]))
    return names


def audit(prop):
    """Run #print axioms on every theorem of the property file.

    Returns (obligations, discharged, details, raw) where details maps theorem -> axioms list
    (or None when the theorem did not check)."""
    names = prop_theorems(prop)
    text = "import ZbossModel.Props.%s\n" % prop + "".join("#print axioms %s\n" % n for n in names)
    os.makedirs(os.path.join(LEAN, "ZbossModel", "Audit"), exist_ok=True)
    path = os.path.join(LEAN, "ZbossModel", "Audit", prop + ".lean")
    try:
        cur = open(path).read()
    except FileNotFoundError:
        cur = None
    if cur != text:
        with open(path, "w") as f:
            f.write(text)
    rc, out = sh(["lake", "env", "lean", os.path.join("ZbossModel", "Audit", prop + ".lean")], cwd=LEAN,
                 timeout=1200)
    details = {}
    for n in names:
        m = re.search(r"'%s' depends on axioms: \[([^\]]*)\]" % re.escape(n), out, re.S)
        if m:
            details[n] = [a.strip() for a in m.group(1).replace("\n", " ").split(",") if a.strip()]
        elif re.search(r"'%s' does not depend on any axioms" % re.escape(n), out):
            details[n] = []
        else:
            details[n] = None
    discharged = [n for n, ax in details.items() if ax is not None and set(ax) <= ALLOWED_AXIOMS]
    return names, discharged, details, out


def leanchecker(modules, timeout=3000):
    rc, out = sh(["lake", "env", "leanchecker"] + list(modules), cwd=LEAN, timeout=timeout)
    return rc == 0, out


class Driver:
    """Batch interface to the compiled Lean driver (one line in, one line out)."""

    def __init__(self):
        if not os.path.exists(DRIVER):
            raise Infra("driver not built: " + DRIVER)
        self.calls = 0

    def ask(self, lines):
        lines = list(lines)
        if not lines:
            return []
        for ln in lines:
            if "\n" in ln:
                raise Infra("newline in driver request")
        p = subprocess.run([DRIVER], input="\n".join(lines) + "\n", stdout=subprocess.PIPE,
                           stderr=subprocess.PIPE, text=True, timeout=1800)
        if p.returncode != 0:
            raise Infra("driver failed: rc=%s %s" % (p.returncode, p.stderr[-400:]))
        out = p.stdout.split("\n")
        if out and out[-1] == "":
            out.pop()
        if len(out) != len(lines):
            raise Infra("driver answered %d lines for %d requests" % (len(out), len(lines)))
        self.calls += len(lines)
        return out

    def ask1(self, line):
        return self.ask([line])[0]


def hx(b: bytes) -> str:
    return bytes(b).hex() if len(b) else "-"


class Ctx:
    """Per-run context handed to a property module."""

    def __init__(self, prop, tier, seed):
        self.prop = prop
        self.tier = tier
        self.seed = seed
        self.rng = random.Random((seed, prop).__repr__())
        self.driver = None
        self.evaluations = 0
        self.nontrivial = set()
        self.samples = []
        self.dist = {}
        self.mismatches = []      # correspondence disagreements: dict(op,input,model,impl)
        self.counterexamples = []  # property failures on the implementation: dict(signature,input,expected,observed,what)
        self.exhaustive = None
        self.rule = ""
        self.traces = 0
        self.notes = []
        self.t0 = time.time()

    def thorough(self):
        return self.tier == "thorough"

    def scale(self, quick, thorough):
        return thorough if self.tier == "thorough" else quick

    def count(self, key, n=1):
        self.dist[key] = self.dist.get(key, 0) + n

    def case(self, canonical, nontrivial=True, sample=None):
        """Register one evaluated case; `canonical` is hashed for distinctness."""
        self.evaluations += 1
        if nontrivial:
            self.nontrivial.add(hashlib.blake2b(repr(canonical).encode(), digest_size=8).digest())
        if sample is not None and len(self.samples) < 14:
            # the first three cases, then one at every power of two: a spread over the whole run
            n = self.evaluations
            if n <= 3 or (n & (n - 1)) == 0:
                self.samples.append(sample)

    def mismatch(self, op, inp, model, impl):
        if len(self.mismatches) < 50:
            self.mismatches.append(dict(op=op, input=inp, model=model, impl=impl))
        self.count("MISMATCH:" + op)

    def counterexample(self, signature, inp, expected, observed, what):
        if len(self.counterexamples) < 50:
            self.counterexamples.append(dict(signature=signature, input=inp, expected=expected,
                                             observed=observed, what=what))
        self.count("COUNTEREXAMPLE:" + signature)


class ImplCoverage:
    """Line coverage of the implementation while the correspondence runs (sys.monitoring, Python >= 3.12):
    which lines of the functions of the property's anchor files the harness actually executed.  Reported in the
    evidence so that un-exercised code in the modelled functions is visible; it is not part of any verdict."""

    TOOL = 3

    def __init__(self, prop):
        self.prop = prop
        self.hit = {}
        self.files = {}
        try:
            for ln in open(os.path.join(VERIF, "properties.jsonl")):
                pr = json.loads(ln)
                if pr["id"] == prop:
                    import glob
                    for pat in pr["anchors"]["files"]:
                        for f in glob.glob(os.path.join(REPO, pat)):
                            self.files[os.path.realpath(f)] = os.path.relpath(f, REPO)
        except Exception:
            pass
        self.on = False

    def __enter__(self):
        mon = getattr(sys, "monitoring", None)
        if mon is None or not self.files:
            return self
        try:
            mon.use_tool_id(self.TOOL, "verif-cov")
        except Exception:
            return self
        files = self.files
        hit = self.hit

        def on_line(code, line):
            fn = code.co_filename
            if fn in files:
                hit.setdefault(fn, set()).add(line)
            return mon.DISABLE
        mon.register_callback(self.TOOL, mon.events.LINE, on_line)
        mon.set_events(self.TOOL, mon.events.LINE)
        self.on = True
        return self

    def __exit__(self, *a):
        if self.on:
            mon = sys.monitoring
            mon.set_events(self.TOOL, 0)
            mon.register_callback(self.TOOL, mon.events.LINE, None)
            mon.free_tool_id(self.TOOL)
            self.on = False

    @staticmethod
    def _function_lines(path):
        """{function qualname: set(lines)} for every function / method body of the file (module level excluded)."""
        out = {}
        try:
            top = compile(open(path).read(), path, "exec")
        except Exception:
            return out

        def walk(co, prefix):
            for c in co.co_consts:
                if hasattr(c, "co_code"):
                    name = (prefix + "." if prefix else "") + c.co_name
                    is_fn = bool(c.co_flags & 0x2) and not c.co_name.startswith("<")  # CO_NEWLOCALS: def / lambda
                    if is_fn:
                        lines = {l for _, _, l in c.co_lines() if l is not None and l != c.co_firstlineno}
                        if lines:
                            out[name] = out.get(name, set()) | lines
                    walk(c, name)
        walk(top, "")
        return out

    def report(self):
        rep = {}
        for real, rel in sorted(self.files.items(), key=lambda x: x[1]):
            fl = self._function_lines(real)
            if not fl:
                continue
            hit = self.hit.get(real, set())
            total = set().union(*fl.values())
            per_fn = {}
            for fn, lines in fl.items():
                got = lines & hit
                if got and got != lines:
                    per_fn[fn] = sorted(lines - hit)
            untouched = sorted(fn for fn, lines in fl.items() if not (lines & hit))
            rep[rel] = dict(executable_lines_in_functions=len(total), executed=len(total & hit),
                            partly_executed_functions_missing_lines=per_fn,
                            functions_not_entered=untouched[:60])
        return rep


def load_known():
    p = os.path.join(VERIF, "known_findings.json")
    try:
        return json.load(open(p))
    except FileNotFoundError:
        return {"findings": [], "fixed": []}


def write_replay(prop, seed, kind, body):
    os.makedirs(os.path.join(VERIF, "replays"), exist_ok=True)
    n = 0
    while True:
        rel = os.path.join("replays", "%s-%d-%d.json" % (prop, seed, n))
        if not os.path.exists(os.path.join(VERIF, rel)):
            break
        n += 1
    body = dict(body)
    body.update(property=prop, kind=kind, seed=seed, repo_head=repo_head(),
                replay_cmd="./check %s --replay %s" % (prop, rel))
    with open(os.path.join(VERIF, rel), "w") as f:
        json.dump(body, f, indent=1, default=str)
    return rel


def write_evidence(ctx, obligations, discharged, details, violations, extra=None, assumptions=None):
    os.makedirs(os.path.join(VERIF, "evidence"), exist_ok=True)
    cov = {
        "obligations": len(obligations),
        "discharged": len(discharged),
        "theorems": {n: ("NOT CHECKED" if details.get(n) is None else details[n]) for n in obligations},
        "checker_cmd": "cd lean/ZbossModel && lake build ZbossModel.Props.%s && lake env lean ZbossModel/Audit/%s.lean"
                       % (ctx.prop, ctx.prop) + (" && lake env leanchecker ZbossModel.Props.%s" % ctx.prop
                                                 if ctx.thorough() else ""),
        "trusted_base": TRUSTED_BASE,
        "evaluations": ctx.evaluations,
        "distinct_nontrivial": len(ctx.nontrivial),
        "rule": ctx.rule,
        "samples": ctx.samples,
        "traces_validated_against_impl": ctx.traces or ctx.evaluations,
        "input_distribution": dict(sorted(ctx.dist.items())),
        "correspondence_mismatches": len(ctx.mismatches),
        "repo_head": repo_head(),
    }
    if ctx.exhaustive is not None:
        cov["exhaustive"] = bool(ctx.exhaustive)
    if getattr(ctx, "impl_coverage", None):
        cov["impl_line_coverage"] = ctx.impl_coverage
    if ctx.notes:
        cov["notes"] = ctx.notes
    if extra:
        cov.update(extra)
    ev = {
        "property_id": ctx.prop,
        "tier": ctx.tier,
        "seed": ctx.seed,
        "level": "proof",
        "coverage": cov,
        "assumptions": assumptions or [],
        "wall_s": round(time.time() - ctx.t0, 2),
        "violations": violations,
    }
    with open(os.path.join(VERIF, "evidence", ctx.prop + ".json"), "w") as f:
        json.dump(ev, f, indent=1, default=str)
