"""./check <Cxx> quick|thorough   |   ./check <Cxx> --replay <file>   |   ./check --setup

One check =
  1. translators: regenerate Generated/*.lean from /repo's working tree;
  2. lake build: driver (models only) and ZbossModel.Props.<Cxx> (the theorems);
  3. audit: #print axioms on every theorem of Props/<Cxx>.lean, source grep for proof escapes;
  4. correspondence: real code vs compiled Lean model on generated inputs, and the
     property's observation checker on the implementation's outputs;
  5. verdict (DESIGN.md section 4) and evidence/<Cxx>.json.
"""
from __future__ import annotations

import importlib
import json
import os
import re
import sys
import time
import traceback

HERE = os.path.dirname(os.path.abspath(__file__))
sys.path.insert(0, HERE)
import common  # noqa: E402
from common import Ctx, Infra  # noqa: E402

PROPS = ["C%02d" % i for i in range(1, 21)]


def setup():
    common.regenerate()
    ok, log = common.lake_build(["driver", "ZbossModel"], timeout=5400)
    print(log[-3000:])
    if not ok:
        # a failing build is reported by the individual checks; setup itself only prepares what it can
        ok2, log2 = common.lake_build(["driver"], timeout=5400)
        print(log2[-2000:])
    return 0


def failed_decls(log):
    """theorem / file names mentioned in lake's error output."""
    names = set()
    for m in re.finditer(r"error: (\S+\.lean):(\d+):(\d+)", log):
        names.add("%s:%s" % (m.group(1), m.group(2)))
    return sorted(names)


def theorem_at(path_line):
    """Map 'file:line' to the enclosing theorem name (best effort)."""
    try:
        path, line = path_line.rsplit(":", 1)
        p = path if os.path.isabs(path) else os.path.join(common.LEAN, path)
        lines = open(p).read().splitlines()
        for i in range(int(line) - 1, -1, -1):
            m = re.match(r"\s*(?:private\s+)?(?:theorem|def|instance|example)\s*([^\s:({\[]*)", lines[i])
            if m:
                return "%s (%s)" % (m.group(1) or "example", path_line)
    except Exception:
        pass
    return path_line


def main(argv):
    if len(argv) >= 1 and argv[0] == "--setup":
        return setup()
    if len(argv) < 2 or argv[0] not in PROPS:
        print("usage: ./check <C01..C20> quick|thorough | ./check <Cxx> --replay <file> | ./check --setup")
        return 2
    prop = argv[0]
    seed = int(os.environ.get("VERIF_SEED", "0") or 0)
    mod = importlib.import_module("props." + prop.lower())
    if argv[1] == "--replay":
        ctx = Ctx(prop, "quick", seed)
        common.regenerate()
        ok, log = common.lake_build(["driver"])
        if not ok:
            print(log[-2000:])
            return 2
        ctx.driver = common.Driver()
        rep = json.load(open(argv[2] if os.path.isabs(argv[2]) else os.path.join(common.VERIF, argv[2])))
        return mod.replay(ctx, rep)
    tier = argv[1]
    if tier not in ("quick", "thorough"):
        print("tier must be quick or thorough")
        return 2
    tier = os.environ.get("VERIF_TIER", tier) if os.environ.get("VERIF_TIER") in ("quick", "thorough") else tier
    ctx = Ctx(prop, tier, seed)
    broken = []          # names of proof obligations / build steps that no longer check
    # 1. translators
    try:
        changed = common.regenerate()
        if changed:
            ctx.notes.append("generated files changed: %s" % changed)
        try:
            stp = os.path.join(common.LEAN, "ZbossModel", "Generated", "exprs_status.json")
            lost = [k for k, v in json.load(open(stp)).items() if not v.get("located")]
            if lost:
                ctx.notes.append("source expressions not located by translator 4 (pinned default used, tie = differential only): %s" % lost)
        except Exception:
            pass
    except Infra:
        raise
    except Exception as ex:  # the repo no longer exposes what the translator reads
        broken.append("translator: %s: %s" % (type(ex).__name__, ex))
        traceback.print_exc()
    # 2. build
    ok_driver, log = common.lake_build(["driver"])
    if not ok_driver:
        broken.append("model build (driver): " + "; ".join(theorem_at(x) for x in failed_decls(log)))
        print(log[-3000:])
    if tier == "thorough":
        # clean rebuild of the property's own module so that nothing stale is trusted
        olean = os.path.join(common.LEAN, ".lake", "build", "lib", "lean", "ZbossModel", "Props", prop + ".olean")
        if os.path.exists(olean):
            os.remove(olean)
    ok_props, log = common.lake_build(["ZbossModel.Props." + prop])
    if not ok_props:
        broken.extend("proof obligation: " + theorem_at(x) for x in failed_decls(log))
        if not failed_decls(log):
            broken.append("proof build failed: " + log[-300:])
        print(log[-3000:])
    # 3. audit
    obligations, discharged, details = common.prop_theorems(prop), [], {}
    if ok_props:
        obligations, discharged, details, raw = common.audit(prop)
        for n in obligations:
            if n not in discharged:
                broken.append("audit: %s axioms=%s" % (n, details.get(n)))
    hits = common.grep_forbidden()
    for h in hits:
        broken.append("forbidden token: " + h)
    if tier == "thorough" and ok_props:
        okc, outc = common.leanchecker(["ZbossModel.Props." + prop])
        ctx.notes.append("leanchecker: " + ("ok" if okc else "FAILED"))
        if not okc:
            broken.append("leanchecker: " + outc[-300:])
    # 4. correspondence + observation checker
    if ok_driver:
        ctx.driver = common.Driver()
    cov = common.ImplCoverage(prop)
    try:
        with cov:
            mod.run(ctx)
        try:
            ctx.impl_coverage = cov.report()
        except Exception:
            traceback.print_exc()
    except Infra:
        raise
    except Exception as ex:
        # the harness cannot drive the implementation any more (API changed, crash):
        # the tie is broken; not by itself a violation - searched below
        traceback.print_exc()
        ctx.mismatch("harness", "exception while driving implementation", "", "%s: %s" % (type(ex).__name__, ex))
    # 5. verdict
    known = common.load_known()
    open_findings = [f for f in known.get("findings", []) if f.get("property") == prop]
    rc = 0
    lines = []
    new_cex = []
    seen_known = set()
    for cx in ctx.counterexamples:
        hit = next((f for f in open_findings if f.get("signature") == cx["signature"]), None)
        if hit is not None:
            seen_known.add(hit["signature"])
        else:
            new_cex.append(cx)
    for f in open_findings:
        # a listed finding is announced on every run (it is part of the unchanged tree)
        lines.append("KNOWN-FINDING: property=%s %s" % (prop, f.get("what", f.get("signature"))))
    if new_cex:
        cx = new_cex[0]
        rel = common.write_replay(prop, seed, "counterexample", dict(
            what=cx["what"], signature=cx["signature"], input=cx["input"], expected=cx["expected"],
            observed=cx["observed"], broken=broken, mismatches=ctx.mismatches[:3],
            other_counterexamples=[c["signature"] for c in new_cex[1:10]]))
        lines.append("VIOLATION property=%s replay=%s" % (prop, rel))
        rc = 1
    elif broken or ctx.mismatches:
        # something no longer checks: extended search for a concrete failing input
        found = None
        if hasattr(mod, "search"):
            try:
                found = mod.search(ctx)
            except Infra:
                raise
            except Exception:
                traceback.print_exc()
        if found is not None and not any(f.get("signature") == found["signature"] for f in open_findings):
            rel = common.write_replay(prop, seed, "counterexample", dict(
                what=found["what"], signature=found["signature"], input=found["input"],
                expected=found["expected"], observed=found["observed"], broken=broken,
                mismatches=ctx.mismatches[:3]))
            lines.append("VIOLATION property=%s replay=%s" % (prop, rel))
        else:
            kind = "broken-obligation" if broken else "correspondence-only"
            rel = common.write_replay(prop, seed, kind, dict(
                what="the property is no longer shown to hold: " + (
                    "; ".join(broken) if broken else "model and implementation disagree"),
                theorem=broken, op=[m["op"] for m in ctx.mismatches[:5]],
                input=(ctx.mismatches[0]["input"] if ctx.mismatches else None),
                expected=(ctx.mismatches[0]["model"] if ctx.mismatches else None),
                observed=(ctx.mismatches[0]["impl"] if ctx.mismatches else None),
                mismatches=ctx.mismatches[:5]))
            lines.append("VIOLATION property=%s replay=%s no-failing-input-found" % (prop, rel))
        rc = 1
    common.write_evidence(ctx, obligations, discharged, details, violations=(1 if rc else 0),
                          extra=dict(broken_obligations=broken) if broken else None,
                          assumptions=getattr(mod, "ASSUMPTIONS", []))
    print("%s %s seed=%d: theorems %d/%d, evaluations %d (distinct non-trivial %d), mismatches %d, "
          "counterexamples %d, %.1fs" % (prop, tier, seed, len(discharged), len(obligations), ctx.evaluations,
                                         len(ctx.nontrivial), len(ctx.mismatches), len(ctx.counterexamples),
                                         time.time() - ctx.t0))
    for ln in lines:
        print(ln)
    return rc


if __name__ == "__main__":
    try:
        sys.exit(main(sys.argv[1:]))
    except Infra as ex:
        print("INFRASTRUCTURE: %s" % ex)
        sys.exit(2)
